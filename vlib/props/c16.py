"""C16 — --ansi: escape sequences leave the text, colours land on the right characters."""
import re
from vlib import core

ID = "C16"
N_QUICK, N_THOROUGH = 30000, 600000
STRICT_MODEL = True
RULE = ("lines built from text runs (ASCII incl. the sequence's own characters '[ ; : m ? 0-9', tab, é 中 😀 U+FFFD U+3000 NBSP NEL DEL, "
        "a combining mark) interleaved with SGR sequences (every code 0..107 singly and in lists - also as a fixed corpus of 3 cases per "
        "code -, 38/48;5;n and 38/48;2;r;g;b complete, truncated at every length and followed by further codes, wrong selectors, empty / "
        "zero-padded / > 255 / > 65535 parameters, ':' sub-parameters, lists around vte's 32-parameter limit) and other CSI sequences "
        "(parameter, private-marker and intermediate bytes, every final byte but m); modes: one line (AnsiString::parse), one ANSIParser "
        "over several lines, Header::with_options, one DefaultSkimItem per line, vte-only tokenizer diff; ~12% malformed stream (raw ESC / "
        "C0 / unterminated / private-marker-with-final-m sequences) and 5% state-machine chaos: model-vs-code only. "
        "non-trivial = at least one non-empty text run AND one SGR sequence with a non-empty body; distinct by sha1 of the case line")
ASSUMPTIONS = [
    "vte 0.11 tokenisation is modelled for Ground/Escape/CSI states only (OSC, DCS, SOS/PM/APC strings are flagged unsupported and never generated)",
    "texts shorter than 2^32 characters (`as u32` on character counts is not modelled)",
    "preview text: the shared mechanism (one ANSIParser over consecutive lines, mode multi) and the real Previewer shown ANSI texts one after the other (mode pv: ItemPreview::AnsiText through the preview thread; every text starts from default attributes); no spawned preview process",
]
TRUSTED = [
    "tools/extractors/sgr.py (regex over the match arms of csi_dispatch; fails closed) -> Generated/Sgr.lean",
    "vte 0.11 (tokenizer modelled by hand and cross-checked by the `tok` stream, not derived from its source); tuikit Attr/Color/Effect",
]

TXT = [ord(c) for c in "abcXYZ019 _-./[];:m?"] + [32, 9, 9, 0xE9, 0x4E2D, 0x1F600, 0xFFFD, 0x3000, 0xA0, 0x7F, 0x85, 0x301]
KNOWN = [0, 1, 2, 4, 5, 7] + list(range(30, 50)) + list(range(90, 98)) + list(range(100, 108))
BIG = ["255", "256", "300", "511", "65535", "65536", "99999", "4294967296", "0255", "00"]
MODES = ["one"] * 11 + ["multi"] * 3 + ["hdr"] * 2 + ["item"] * 2 + ["tok"] * 2


def enc(cps):
    return ".".join(str(c) for c in cps) if cps else "-"


def rtext(rng, lo=0, hi=6):
    return "t=" + enc([rng.choice(TXT) for _ in range(rng.randint(lo, hi))])


def rcode(rng):
    x = rng.random()
    if x < 0.55:
        return str(rng.choice(KNOWN))
    if x < 0.85:
        return str(rng.randint(0, 107))
    if x < 0.90:
        return ""
    if x < 0.95:
        return rng.choice(BIG)
    return "0" * rng.randint(1, 2) + str(rng.randint(0, 107))


def rcol(rng):
    x = rng.random()
    if x < 0.8:
        return str(rng.choice([0, 1, 7, 8, 15, 16, 196, 231, 232, 254, 255]))
    if x < 0.9:
        return rng.choice(BIG)
    return "" if x < 0.95 else "%d:%d" % (rng.randint(0, 255), rng.randint(0, 9))


def rext(rng):
    """38/48 form, complete or truncated at any length, selector possibly wrong"""
    lead = rng.choice(["38", "48"])
    x = rng.random()
    if x < 0.45:
        full = [lead, "5", rcol(rng)]
    elif x < 0.85:
        full = [lead, "2", rcol(rng), rcol(rng), rcol(rng)]
    elif x < 0.93:
        full = [lead, rng.choice(["0", "1", "3", "4", "6", "", "05", "2:0", "5:1", "256"]), rcol(rng), rcol(rng)]
    else:
        sel = rng.choice(["5", "2"])
        return [lead + ":" + sel + ":" + ":".join(rcol(rng) for _ in range(1 if sel == "5" else 3))]
    if rng.random() < 0.35:
        full = full[:rng.randint(1, len(full))]
    return full


def rsgr(rng):
    x = rng.random()
    if x < 0.25:
        ps = [rcode(rng)]
    elif x < 0.5:
        ps = [rcode(rng) for _ in range(rng.randint(2, 5))]
    elif x < 0.9:
        ps = [rcode(rng) for _ in range(rng.randint(0, 2))] + rext(rng) + [rcode(rng) for _ in range(rng.randint(0, 3))]
        if rng.random() < 0.2:
            ps += rext(rng)
    elif x < 0.95:
        ps = [rcode(rng) + ":" + str(rng.randint(0, 9)) for _ in range(rng.randint(1, 3))]
    else:
        # around vte's 32-parameter limit, possibly with an extended form straddling it
        n = rng.choice([29, 30, 31, 32, 33, 34, 40])
        ps = [rcode(rng) for _ in range(n)]
        if rng.random() < 0.6:
            k = rng.randint(max(0, n - 8), n)
            ps[k:k] = rext(rng)
        ps += [str(rng.choice(KNOWN))]
    return "s=" + ";".join(ps)


OTHER = [("", "K"), ("2", "J"), ("1;1", "H"), ("?25", "l"), ("?1049", "h"), ("1 ", "q"), (">", "c"), ("", "A"), ("10;20", "r"),
         ("1 2", "p"), ("1<", "x"), (" 1", "y"), ("38;5;1", "n"), ("?1;2", "c"), ("0", "`"), ("1", "~"), ("5", "@")]


def rcsi(rng):
    if rng.random() < 0.8:
        b, f = rng.choice(OTHER)
    else:
        b = "".join(chr(rng.randint(0x20, 0x3f)) for _ in range(rng.randint(0, 5)))
        f = chr(rng.choice([c for c in range(0x40, 0x7f) if c != ord("m")]))
    return "c=%s=%d" % (enc([ord(c) for c in b]), ord(f))


RAW = [[27], [27, 27, 91, 49, 109], [27, 91, 49], [27, 91, 62, 52, 59, 50, 109], [27, 91, 63, 49, 109], [27, 91, 49, 32, 109],
       [8], [13], [0], [7], [24], [26], [27, 99], [27, 40, 66], [27, 91, 51, 49, 9, 109], [27, 91, 0xE9, 51, 49, 109],
       [27, 91, 51, 24, 49, 109], [27, 91, 49, 59, 60, 109], [27, 91, 127, 49, 109], [10], [27, 91, 49, 27, 91, 52, 109],
       [97, 8, 8, 8], [27, 0xE9, 91], [27, 55], [27, 32, 70], [11], [12], [27, 91, 33, 112]]


def rraw(rng):
    if rng.random() < 0.7:
        return "r=" + enc(rng.choice(RAW))
    pool = [27, 27, 91, 91, 109, 59, 58, 49, 51, 56, 53, 50, 8, 9, 13, 24, 32, 63, 62, 97, 0xE9, 127, 64, 0x4E2D]
    return "r=" + enc([rng.choice(pool) for _ in range(rng.randint(1, 8))])


ESC_STRING = re.compile("\x1b[\x00-\x17\x19\x1c-\x1f\x7f-\U0010ffff]*[\\]PX^_]")


def render(segs):
    out = []
    for s in segs:
        if s == "n":
            out.append("\n")
            continue
        k, _, v = s.partition("=")
        if k in ("t", "r"):
            out.append("".join(chr(int(x)) for x in v.split(".")) if v != "-" else "")
        elif k == "s":
            out.append("\x1b[" + v + "m")
        elif k == "c":
            b, _, f = v.partition("=")
            out.append("\x1b[" + ("".join(chr(int(x)) for x in b.split(".")) if b != "-" else "") + chr(int(f)))
    return "".join(out)


CHAOS = [27, 27, 27, 91, 91, 91, 109, 109, 59, 59, 58, 48, 49, 50, 51, 52, 53, 55, 56, 57, 32, 33, 47, 63, 62, 60, 61, 8, 9, 10, 13,
         0, 7, 24, 26, 127, 0xE9, 0x4E2D, 64, 75, 99, 40, 66, 97, 126, 96, 31, 28]


def pv_case(rng):
    """2-3 preview texts of exactly two non-empty lines each (no CR: the previewer splits with str::lines); a text often ends with an
    attribute still selected — the next text must start from default attributes all the same"""
    lines = []
    for _ in range(2 * rng.randint(2, 3)):
        segs = []
        for _ in range(rng.randint(0, 3)):
            segs.append(rsgr(rng) if rng.random() < 0.6 else "t=%d" % rng.choice([97, 98, 120, 233, 20013]))
        segs.append("t=%d" % rng.choice([97, 98, 120, 20013]))
        if rng.random() < 0.3:
            segs.append(rsgr(rng))
        lines.append(segs)
    out = []
    for i, l in enumerate(lines):
        if i:
            out.append("n")
        out.extend(l)
    return "pv", out


def one_case(rng):
    if rng.random() < 0.04:
        return pv_case(rng)
    mode = rng.choice(MODES)
    if rng.random() < 0.05:
        # state-machine chaos: any mix of ESC, '[', parameter / intermediate / final bytes, C0 controls, DEL, non-ASCII
        segs = ["r=" + enc([rng.choice(CHAOS) for _ in range(rng.randint(3, 30))]) for _ in range(rng.randint(1, 3))]
        if mode in ("multi", "hdr", "item"):
            segs.insert(rng.randint(0, len(segs)), "n")
        return mode, segs
    malformed = rng.random() < 0.12 or (mode == "tok" and rng.random() < 0.5)
    nseg = rng.choice([1, 2, 3, 4, 6, 9, 14])
    segs = []
    for _ in range(nseg):
        x = rng.random()
        if malformed and x < 0.3:
            segs.append(rraw(rng))
        elif x < 0.45:
            segs.append(rtext(rng, 0 if rng.random() < 0.1 else 1))
        elif x < 0.85:
            segs.append(rsgr(rng))
        elif x < 0.95:
            segs.append(rcsi(rng))
        elif mode in ("multi", "hdr", "item"):
            segs.append("n")
        else:
            segs.append(rtext(rng, 1, 3))
    if mode in ("multi", "hdr", "item"):
        # make sure there are line breaks, some directly after a colour change
        for _ in range(rng.randint(1, 3)):
            segs.insert(rng.randint(0, len(segs)), "n")
    if rng.random() < 0.7:
        segs.append(rtext(rng, 1, 4))
    return mode, segs


def gen(rng, tier, n):
    i = 0
    while i < n:
        mode, segs = one_case(rng)
        if ESC_STRING.search(render(segs)):
            continue          # would start an OSC/DCS/SOS string: outside the model
        i += 1
        yield mode + "|" + " ".join(segs)


def _systematic():
    out = []
    for c in range(0, 108):
        out.append("one|s=%d t=88" % c)                                   # every code alone: ESC[<c>mX
        out.append("one|s=1;%d;4 t=88.233 s=0 t=89" % c)                  # inside a list, then reset
        out.append("multi|t=97 s=%d t=98 n t=20013.99 n s= t=100" % c)    # carried to the next lines, then ESC[m
    for lead in (38, 48):
        for form in (["5", "196"], ["2", "10", "20", "30"]):
            full = [str(lead)] + form
            for k in range(1, len(full) + 1):
                out.append("one|t=97 s=%s t=98 s=7 t=99" % ";".join(full[:k]))          # truncated at every length
                out.append("one|t=97 s=%s;1;4 t=98" % ";".join(full[:k]))               # … followed by further codes
                out.append("one|s=31;44 t=97 s=%s t=98" % ";".join(full[:k]))
    return out


CORPUS = _systematic()


def _segs(case):
    return [s for s in case.rsplit("|", 1)[1].split(" ") if s]


def nontrivial(case):
    segs = _segs(case)
    return any(s.startswith("t=") and s != "t=-" for s in segs) and any(s.startswith("s=") and len(s) > 2 for s in segs)


def histogram_keys(case):
    mode = case.split("|", 1)[0]
    segs = _segs(case)
    ks = ["mode:" + mode, "segs<=%d" % next((b for b in (1, 2, 4, 8, 16) if len(segs) <= b), 99)]
    for s in segs:
        k, _, v = s.partition("=")
        if s == "n":
            ks.append("linebreak")
        elif k == "t":
            cps = [int(x) for x in v.split(".")] if v != "-" else []
            ks.append("text")
            if any(c > 127 for c in cps):
                ks.append("text:multibyte")
            if 9 in cps:
                ks.append("text:tab")
        elif k == "r":
            ks.append("raw")
        elif k == "c":
            ks.append("csi-other")
        elif k == "s":
            ps = v.split(";")
            flat = [x for p in ps for x in p.split(":")]
            ks.append("sgr:1-param" if len(ps) == 1 else "sgr:list")
            if len(flat) >= 32:
                ks.append("sgr:>=32-params")
            if ":" in v:
                ks.append("sgr:subparams")
            if any(p == "" for p in ps):
                ks.append("sgr:empty-param")
            if any(x.isdigit() and int(x) > 255 for x in flat):
                ks.append("sgr:value>255")
            for i, p in enumerate(ps):
                if p in ("38", "48"):
                    rest = ps[i + 1:]
                    if rest[:1] == ["5"]:
                        ks.append("ext:256" if len(rest) >= 2 else "ext:256-truncated")
                    elif rest[:1] == ["2"]:
                        ks.append("ext:rgb" if len(rest) >= 4 else "ext:rgb-truncated")
                    elif not rest:
                        ks.append("ext:bare")
                    else:
                        ks.append("ext:bad-selector")
            if len(ps) == 1 and ps[0].isdigit() and int(ps[0]) <= 107 and len(ps[0]) <= 3:
                ks.append("code%03d" % int(ps[0]))
    return sorted(set(ks))


def shrink_candidates(case):
    out = core.default_shrink_candidates(case)
    hd, body = case.rsplit("|", 1)
    segs = [s for s in body.split(" ") if s]
    for i, s in enumerate(segs):
        k, _, v = s.partition("=")
        alts = []
        if k == "s" and v:
            ps = v.split(";")
            alts = [";".join(ps[:j] + ps[j + 1:]) for j in range(len(ps))] if len(ps) > 1 else []
        elif k in ("t", "r") and "." in v:
            cs = v.split(".")
            alts = [".".join(cs[:j] + cs[j + 1:]) for j in range(len(cs))]
        for a in alts:
            out.append(hd + "|" + " ".join(segs[:i] + [k + "=" + a] + segs[i + 1:]))
    if hd != "one" and hd != "tok" and "n" not in segs:
        out.append("one|" + body)
    return out


TECHNIQUE = ("Lean 4 proofs over a model of src/ansi.rs (generated SGR table = spec code list for every code; SGR fold = spec "
             "interpreter for all parameter lists; parse(render segs) = stripped text + per-character spec attributes by induction "
             "over segment lists; plain text unchanged; carry-over vs. fresh parser) + differential correspondence against "
             "AnsiString::parse / ANSIParser / Header::with_options / DefaultSkimItem and a vte-only tokenizer diff")
LEVEL_TEXT = ("c16_table proves that the SGR table extracted from the match arms of csi_dispatch means, for EVERY code, what the property's code "
              "list says; c16_sgr proves the parameter loop (incl. 38/48 forms, truncated ones, wrong selectors) equals an independent interpreter "
              "for all parameter lists; c16_parse / c16_parse_spec prove for every running attribute and every well-formed segment list (text runs "
              "in any script + tabs, SGR sequences with arbitrary parameter bytes, any other CSI sequence) that parsing the rendered line yields "
              "exactly the text runs in order and, per CHARACTER, the attribute the spec computes; c16_parse_next that nothing but the spec's running "
              "attribute survives the line; c16_plain, c16_has_attrs, c16_carry, c16_header, c16_items cover plain lines, has_attrs, carry-over with "
              "one parser (header, preview), str_lines, and fresh parsers per item; c16_params that vte's parameter accumulator is decimal parsing "
              "inside its limits (32 numbers, u16). The model is tied to the code by running generated lines through the real AnsiString::parse, "
              "ANSIParser, Header::with_options and DefaultSkimItem and, for the tokenizer, through vte alone.")
LEVEL_NOTE = ("Trusted: Lean kernel + propext/Classical.choice/Quot.sound; the SGR table is regenerated from the source by a fail-closed "
              "extractor; the rest of the model of ansi.rs and the restricted model of vte 0.11's state machine are tied to the code only "
              "by the differential correspondence (incl. a vte-only token stream). OSC/DCS strings, other C0 controls and CSI sequences "
              "with final byte m that are not SGR (private markers / intermediates) are outside the theorems' grammar.")


def classify(r):
    """signature of the defect fixed by fix-1 (kept so that a regression is reported once, not once per text)"""
    segs = _segs(r["case"])
    has2 = any(s.startswith("s=") and any(p.isdigit() and int(p) == 2 for p in s[2:].split(";")) for s in segs)
    if has2 and r.get("verdict") == "bad:attrs" and "dukr" in r.get("impl", ""):
        return "C16-sgr2-dim-sets-underline-blink-reverse"
    return None
