"""Shared machinery for the headless-session properties (C01, C14, session parts of C10 and C05):
case generator and the linearisation of the recorded trace into replay tokens for the Lean driver
(lean/SkimModel/Driver/C01.lean).

Linearisation rules (why the resulting order is a legal order of the real execution):
  * every log line is appended to one global trace under a mutex; lines logged while a lock is held
    (rPush and M's `r.take` under the reader-buffer lock) are therefore in their real order;
  * "about to make a monotone flag true" is logged BEFORE the store (tTake before the swap, tStop before
    `stopped.store(true)`, rEnd before `components_to_stop -= 1`), so a `true` that M read is always preceded
    by the line of the step that made it true;
  * lines of other threads that fall inside an event-loop iteration are moved in front of that iteration's
    handler token — M's reads inside the iteration that did not see them are "stale false" reads, which the
    model allows — except (a) lines of a matcher run spawned in this iteration (they cannot precede their
    spawn; the fixed handler reads nothing of that run afterwards) and (b) reader pushes logged after this
    iteration's `r.take` (the restart did not take them): these follow the handler token;
  * lines of matcher runs that M has killed are dropped (the model removes the run at the kill);
  * the scripted command feeder delivers nothing before the iteration that started it has ended.
"""
import re

import os
# replay heart-beat iterations at read granularity (default); VERIF_COARSE_REPLAY=1 selects the older replay with atomic handlers,
# in which the other threads' lines inside an iteration are moved in front of the handler token
FINE_GRAINED = os.environ.get("VERIF_COARSE_REPLAY", "") != "1"

ALPHA = "abc"
WORDS = ["a", "b", "c", "ab", "ba", "bc", "ca", "abc", "cab", "bb", "ac", "cc"]
CMDS = ["c0", "c01", "c02", "c1", "c2", "c"]          # what interactive typing of 0/1/2 + backspace can reach
PAUSES = [0, 0, 200, 2000, 15000]


def enc(s):
    return ".".join(str(ord(c)) for c in s) if s else "-"


def dec(s):
    if s in ("-", ""):
        return ""
    return "".join(chr(int(t)) for t in s.split("."))


def gen_cmd(rng, cid, nmax, blanks=False):
    n = nmax if nmax > 1000 else rng.choice([0, 1, 2, 3, 5, 8, nmax])
    # `~` = a blank line (see harness/src/session.rs SItem): it matches inverse terms and the empty query only
    items = ["%s-%d.%d" % (rng.choice(WORDS) if not blanks or rng.random() > 0.2 else "~", cid, i) for i in range(n)]
    # chunking in time
    chunks, i = [], 0
    k = rng.choice([1, 1, 2, 3, 4])
    cuts = sorted(rng.randint(0, n) for _ in range(k - 1)) + [n]
    for c in cuts:
        chunks.append("%d@%s" % (rng.choice(PAUSES), ",".join(enc(x) for x in items[i:c])))
        i = c
    return "/".join(chunks), n


def gen_session(rng, kind):
    """kind: 'c01' (queries/modes/commands), 'c14' (select-1/exit-0), 'c10' (selection actions), 'c20' (preview pane), 'c07' (preview context)"""
    if kind == "c05" and rng.random() < 0.08:
        # directed: selected items that the current query hides stay selected through toggle-all / select-all and are returned
        n = rng.choice([3, 5, 8])
        items = ",".join(enc("%s-0.%d" % (rng.choice(WORDS), i)) for i in range(n))
        evs = ["idle", rng.choice(["selall", "toggle up:1 toggle", "toggle"]), "add:%d" % ord(rng.choice(ALPHA)), "idle",
               rng.choice(["togall", "togall", "selall", "toggle"]), rng.choice(["idle", "bs idle", ""]), "accept"]
        return "S|multi|c0=0@%s|%s|-|x" % (items, " ".join(e for e in evs if e))
    if kind == "c20" and rng.random() < 0.3:
        # directed: --no-clear-if-empty, the command is changed to one that prints nothing (the old list stays, its clear stays
        # pending for good), the session settles, and only then the cursor moves in the kept list
        n = rng.choice([3, 5, 8])
        items = ",".join(enc("%s-0.%d" % (rng.choice(WORDS), i)) for i in range(n))
        cmds = ["c0=0@" + items] + ["%s=0@" % c for c in CMDS[1:]]
        evs = ["idle", "add:%d" % ord(rng.choice("12")), "idle"] + [rng.choice(["up:1", "up:2", "down:1", "up:1"]) + " idle" for _ in range(rng.randint(1, 4))]
        return "S|interactive,nce,pv%s|%s|%s|-|x" % (rng.choice(["", ",multi"]), ";".join(cmds), " ".join(evs))
    if kind == "c07":
        # C07 at the Model's wiring of the preview context: interactive mode whose command template has NO `{}` (the command never
        # changes, whatever is typed), a preview pane; the command query handed to the previewer ({cq}) must be the one on the query line
        n = rng.choice([1, 3, 8])
        items = ",".join(enc("%s-0.%d" % (rng.choice(WORDS), i)) for i in range(n))
        opts = ["interactive", "fixcmd", "pv"] + (["multi"] if rng.random() < 0.3 else []) + \
               (["chist=" + "+".join(enc(rng.choice(["0", "1", "2", "01", "02"])) for _ in range(rng.randint(1, 3)))] if rng.random() < 0.4 else [])
        evs = ["idle"]
        for _ in range(rng.choice([1, 2, 4, 8])):
            r = rng.random()
            if r < 0.5:
                evs.append("add:%d" % ord(rng.choice("012ab")))
            elif r < 0.65:
                evs.append("bs")
            elif r < 0.75 and "chist=" in ",".join(opts):
                evs.append(rng.choice(["prevh", "nexth"]))
            elif r < 0.85:
                evs.append(rng.choice(["up:1", "down:1", "toggle"]))
            elif r < 0.92:
                evs.append("ti")
            else:
                evs.append("idle")
        evs.append("idle")
        return "S|%s|c0=0@%s|%s|-|x" % (",".join(opts), items, " ".join(evs))
    if kind == "c01" and rng.random() < 0.08:
        # directed: the command is changed WHILE the previous command is still streaming (its reader holds lines the model has not
        # fetched yet when it is killed): nothing of the previous command may reach the list of the new one
        cmds = []
        for cid, name in enumerate(CMDS):
            n = 120 if cid == 0 else rng.choice([3, 8])
            items = ["%s-%d.%d" % (rng.choice(WORDS), cid, i) for i in range(n)]
            if cid == 0:
                k = 8
                chunks = ["%d@%s" % (rng.choice([200, 2000, 2000]), ",".join(enc(x) for x in items[j * n // k:(j + 1) * n // k])) for j in range(k)]
            else:
                chunks = ["0@" + ",".join(enc(x) for x in items)]
            cmds.append("%s=%s" % (name, "/".join(chunks)))
        evs = ["wait:%d" % rng.choice([300, 1500, 4000, 8000]), "add:%d" % ord(rng.choice("12")), "idle"] + \
              (["bs", "idle"] if rng.random() < 0.3 else [])
        return "S|interactive%s|%s|%s|-|x" % (rng.choice(["", ",hl=1", ",hl=2"]), ";".join(cmds), " ".join(evs))
    if kind == "c01" and rng.random() < 0.06:
        # directed: started with --regex and rotated out of regex mode (and back): the query is then a fuzzy query — `ac` matches
        # `abc` as a fuzzy term and not as a regular expression
        items = ",".join(enc("%s-0.%d" % (w, i)) for i, w in enumerate(["abc", "ac", "cab", "ab", "bc", "abc"][:rng.choice([3, 4, 6])]))
        evs = ["idle", "rot", "idle", "add:97", "add:99", "idle"] + (["rot", "idle"] if rng.random() < 0.5 else []) + \
              (["bs", "add:98", "idle"] if rng.random() < 0.4 else [])
        return "S|regex|c0=0@%s|%s|-|x" % (items, " ".join(evs))
    if kind == "c01" and rng.random() < 0.05:
        # directed: a long source in several chunks under a non-empty query with sorting on — later harvests bring more than a hundred
        # results that rank before what is already listed (the list has been read at the end of every iteration)
        spec, n = gen_cmd(rng, 0, rng.choice([1100, 1600]))
        evs = ["idle"] + (["add:%d" % ord(rng.choice(ALPHA)), "idle"] if rng.random() < 0.4 else [])
        return "S|q=%s|c0=%s|%s|-|x" % (enc(rng.choice(ALPHA)), spec, " ".join(evs))
    opts = []
    # interactive sessions re-run commands: the run number of an item changes, and comes back when a command text comes back
    interactive = (kind == "c01" and rng.random() < 0.35) or (kind in ("c10", "c05") and rng.random() < 0.25) or (kind == "c20" and rng.random() < 0.6)
    if interactive:
        opts.append("interactive")
    if kind in ("c10", "c05") or rng.random() < 0.3:
        opts.append("multi")
    hl = rng.choice([0, 0, 0, 1, 2, 3])
    if hl:
        opts.append("hl=%d" % hl)
    if rng.random() < 0.15:
        opts.append(rng.choice(["tac", "nosort"]))
    if rng.random() < 0.1 and kind != "c14":
        opts.append("regex")
    if rng.random() < 0.3:
        opts.append("q=" + enc("".join(rng.choice(ALPHA) for _ in range(rng.randint(1, 2)))))
    history = kind in ("c01", "c05") and rng.random() < 0.3
    if history:
        # recalled entries often have the LENGTH of what is typed (1-2 letters) — only the text tells them apart
        opts.append("hist=" + "+".join(enc(rng.choice(WORDS[:9])) for _ in range(rng.randint(1, 3))))
        if interactive:
            opts.append("chist=" + "+".join(enc(rng.choice(["0", "1", "2", "01", "02"])) for _ in range(rng.randint(1, 3))))
    if (kind != "c14" and rng.random() < 0.12) or kind == "c20":
        opts.append("pv")            # a preview pane: the last preview request must be for the item under the cursor
    if interactive and rng.random() < (0.6 if kind == "c20" else 0.25):
        opts.append("nce")           # --no-clear-if-empty: a command that prints nothing leaves the old list (and a pending clear)
    if kind == "c14":
        opts.append(rng.choice(["select1", "exit0", "select1,exit0"]))
    cmds = []
    blanks = kind == "c01" and rng.random() < 0.3       # blank lines in the source + inverse terms in the query
    names = CMDS if interactive else ["c0"]
    for cid, name in enumerate(names):
        if kind == "c14":
            # aim at 0 / 1 / 2 matches, arriving early or late
            spec, n = gen_cmd(rng, cid, rng.choice([1, 2, 4, 12]))
        else:
            # (now and then a source longer than any internal batch size of the matcher: identities must not depend on how a run is cut up)
            big = kind == "c10" and not interactive and rng.random() < 0.04
            spec, n = gen_cmd(rng, cid, 1500 if big else rng.choice([12, 30, 120]), blanks)
        cmds.append("%s=%s" % (name, spec))
    evs = []
    if kind == "c14":
        # mostly no event at all (the decision is the subject); sometimes the session goes on after the decision: queries that match
        # nothing / one item must not make an option fire later
        nev = 0
        if rng.random() < 0.3:
            evs += ["idle", "add:%d" % ord(rng.choice("abcz")), "idle"] + (["add:122", "idle"] if rng.random() < 0.5 else []) + \
                   (["bs", "idle"] if rng.random() < 0.3 else [])
    else:
        nev = rng.choice([1, 3, 6, 12])
    for _ in range(nev):
        r = rng.random()
        if kind == "c20" and r < 0.45:
            evs.append(rng.choice(["up:1", "up:1", "down:1", "up:2", "idle", "toggle"]))
        elif kind in ("c10", "c05") and r < 0.45:
            evs.append(rng.choice(["toggle", "toggle", "toggle", "selall", "togall", "desel", "up:1", "up:2", "down:1", "up:5"]))
        elif r < 0.55:
            if blanks and rng.random() < 0.4:
                evs.append(rng.choice(["add:33", "add:32 add:33", "add:33 add:%d" % ord(rng.choice(ALPHA))]))   # `!`: inverse terms
            elif kind in ("c05", "c01") and rng.random() < 0.15:
                evs.append("add:32")          # a blank: the query must be reported exactly as edited, blanks included
            else:
                evs.append("add:%d" % ord(rng.choice(ALPHA if not interactive or rng.random() < 0.5 else "012")))
        elif r < 0.68:
            evs.append("bs" if not history or rng.random() < 0.4 else rng.choice(["prevh", "prevh", "nexth"]))
        elif r < 0.74:
            evs.append("rot")
        elif r < 0.80 and interactive:
            evs.append("ti")
        elif r < 0.84:
            evs.append("refresh" if interactive or rng.random() < 0.3 else "up:1")
        elif r < 0.92:
            evs.append(rng.choice(["idle", "idle", "wait:300", "wait:3000", "wait:30000", "hb"]))
        else:
            evs.append(rng.choice(["up:1", "down:1", "toggle", "selall"]))
    if kind == "c05":
        if rng.random() < 0.25:
            evs.append(rng.choice(["add:32", "add:32 add:32", "add:97 add:32", "bs"]))
        evs.append(rng.choice(["idle", "wait:500", ""]))
        evs.append(rng.choice(["accept", "accept", "abort", "accept:%s:%s" % (enc("ctrl-x"), enc("ctrl-x")), "accept::%s" % enc("enter"),
                               "accept:%s:%s" % (enc("alt-a"), enc("alt-a"))]))
    rules = "-"
    if rng.random() < 0.25:
        rules = rng.choice(RACE_RULES)
    return "S|%s|%s|%s|%s|x" % (",".join(opts), ";".join(cmds), " ".join(e for e in evs if e), rules)


# forced schedules for the two races that were fixed (and neighbours); each rule has a timeout, so it can
# only delay a thread, never deadlock the session
RACE_RULES = [
    # matcher thread finishes between the heart beat's read of `stopped` and the select-1/exit-0 check
    "at=mt.before_stop;next=hb.ms_false;timeout=400&at=s1.enter;catchup=mt.after_stop,mt.before_stop;timeout=400",
    # reader finishes between the harvest and the later is_done read
    "at=rd.before_end;next=hb.ms_true;timeout=400&at=hb.after_rs1;catchup=rd.after_end,rd.before_end;timeout=400",
    "at=rd.before_end;next=hb.after_rs;timeout=400&at=hb.after_rs;catchup=rd.after_end,rd.before_end;timeout=300",
    # matcher thread is slow to take
    "at=mt.before_take;sleep;timeout=30",
    "at=mt.before_stop;sleep;timeout=40",
    # ... and slow enough to outlive the 100 ms heart-beat timer: the beats in between must keep a wake-up pending
    "at=mt.before_stop;sleep;timeout=260",
    "at=rd.before_end;sleep;timeout=60",
]


def parse_case(case):
    p = case.split("|")
    opts = [o for o in p[1].split(",") if o]
    cmds = {}
    order = []
    for c in p[2].split(";"):
        if not c:
            continue
        name, spec = c.split("=", 1)
        n = 0
        for ch in spec.split("/"):
            if "@" in ch:
                body = ch.split("@", 1)[1]
                n += len([t for t in body.split(",") if t])
        cmds[name] = n
        order.append(name)
    return opts, cmds, order, p[3].split(), p[4]


def postprocess(case, impl):
    if not impl.startswith("trace="):
        return impl
    try:
        return _post(case, impl)
    except Exception as e:           # malformed trace: let the driver report it
        return "error:postprocess:%s" % (str(e).replace("\t", " ").replace("\n", " ")[:200])


def _post(case, impl):
    opts, cmds, order, events, rules = parse_case(case)
    m = re.match(r"trace=(.*)\|out=(.*)\|M=(.*)\|timeouts=(\d+)$", impl, re.S)
    trace = m.group(1).split(";")
    out, table = m.group(2), m.group(3)
    cid_of = {name: i for i, name in enumerate(order)}
    hl = 0
    for o in opts:
        if o.startswith("hl="):
            hl = int(o[3:])
    toks = []
    qids = {}
    for ent in [e for e in table.split("&") if e]:
        key, rest = ent.split("=", 1)
        qid = qids.setdefault(key, len(qids))
        for pc in rest.split("+"):
            name, ids = pc.split(":", 1)
            if name in cid_of:
                toks.append("M %d %d %s" % (qid, cid_of[name], ids))
    for name in order:
        toks.append("SRC %d %d" % (cid_of[name], cmds[name]))
    init_q = ""
    for o in opts:
        if o.startswith("q="):
            init_q = dec(o[2:])
    init_key = "%s/%d" % (enc(init_q), 1 if "regex" in opts else 0)
    # loop iterations
    spans = []
    cur = None
    for i, l in enumerate(trace):
        if l.startswith("loop.begin "):
            if cur is not None:
                spans.append((cur, i, None))
            cur = i
        elif l.startswith("loop.end ") and cur is not None:
            spans.append((cur, i, i))
            cur = None
    if cur is not None:
        spans.append((cur, len(trace), None))
    first_run = 0
    for (b, e, end) in spans:
        if end is not None:
            first_run = int(re.search(r" run=(\d+) ", trace[end]).group(1))
            break
    header = "OPT select1=%d exit0=%d hl=%d multi=%d nce=%d q=%d c=%d run=%d" % (
        int("select1" in opts), int("exit0" in opts), hl, int("multi" in opts), int("nce" in opts),
        qids.get(init_key, 0), 0, first_run)
    toks.insert(0, header)

    dead = set()
    live_id = [None]
    prev_snap = [None]

    def foreign(l):
        """token for a line of another thread, or None"""
        if l == "rPush":
            return "R+"
        if l == "rEnd":
            return "R."
        mm = re.match(r"(tTake|tPublish|tStop) id=(\d+)", l)
        if mm:
            if int(mm.group(2)) in dead:
                return None
            return {"tTake": "T<", "tPublish": "Tp", "tStop": "Ts"}[mm.group(1)]
        return None

    def snap_tok(l):
        mm = re.match(r"loop\.end list=(\S*) sel=(\S*) nopt=(\d+) mc=(\w+) clear=(\w+) cur=(\d+) run=(\d+) pool=(\d+)/(\d+) rdone=(\w+) re=(\w+) pv=(\S+) pvn=(\S+) dq=(\w*)\. dcmd=(\w*)\. cq=\"(.*)\" q=\"(.*)\"$", l)
        lst = [int(x) for x in mm.group(1).split(",") if x]
        sel = mm.group(2) or "_"
        mc = mm.group(4) == "true"
        clear = {"DontClear": "D", "Clear": "C", "ClearIfNotNull": "N"}[mm.group(5)]
        quiet = (mm.group(10) == "true") and (not mc) and mm.group(8) == mm.group(9)
        info = dict(list=lst, cur=int(mm.group(6)), run=int(mm.group(7)), q=mm.group(17), cq=mm.group(16), re=mm.group(11) == "true", pv=mm.group(12),
                    pvn=mm.group(13), nsel=len([x for x in (mm.group(2) or "").split(",") if x]),
                    dq=bytes.fromhex(mm.group(14)).decode("utf-8", "replace"), dcmd=bytes.fromhex(mm.group(15)).decode("utf-8", "replace"))
        return "SNAP %s %s %d %s %d" % (",".join(str(x) for x in sorted(lst)) or "_", sel, int(mc), clear, int(quiet)), info

    pos = 0
    for (b, e, end) in spans:
        # lines between iterations
        for l in trace[pos:b]:
            t = foreign(l)
            if t:
                toks.append(t)
        inner = trace[b + 1:e]
        ev = trace[b][len("loop.begin "):]
        spawned = None
        take_at = None
        kill_at = None
        feeder_at = None
        for j, l in enumerate(inner):
            if l.startswith("spawn id="):
                spawned = int(l[9:])
            elif l.startswith("r.take ") and take_at is None:
                take_at = j
            elif l == "kill" and kill_at is None:
                kill_at = j
            elif l.startswith("feeder.start "):
                feeder_at = j
        cmdchange = "cmdchange" in inner
        pre, post = [], []
        for j, l in enumerate(inner):
            mm = re.match(r"(tTake|tPublish|tStop) id=(\d+)", l)
            if mm:
                rid = int(mm.group(2))
                if rid in dead:
                    continue
                if spawned is not None and rid == spawned:
                    post.append(foreign(l))
                elif kill_at is not None and j > kill_at:
                    continue            # steps of the run being killed: dropped with it
                else:
                    pre.append(foreign(l))
            elif l in ("rPush", "rEnd"):
                if cmdchange and (feeder_at is None or j < feeder_at):
                    continue            # the reader being killed
                if take_at is not None and j > take_at:
                    post.append(foreign(l))
                else:
                    pre.append(foreign(l))
        if kill_at is not None and live_id[0] is not None:
            dead.add(live_id[0])
        if ev == "EvHeartBeat" and FINE_GRAINED:
            # READ GRANULARITY: nothing is moved. M's reads, its harvest, its restart and its decision are separate tokens, and the
            # lines of the other threads stay exactly where the trace has them (Driver/C01.lean replays them through
            # Model/SessionFG.lean: a `true` that M logged must be true of the model state at that position; a `false` may be stale)
            toks.append("Mb")
            for l in inner:
                t = foreign(l)
                if t:
                    toks.append(t)
                    continue
                mm = re.match(r"hb\.rs (\w+)$", l)
                if mm:
                    toks.append("Mrs %d" % (mm.group(1) == "true"))
                    continue
                mm = re.match(r"hb\.ms (\w+)$", l)
                if mm:
                    toks.append("Mms %d" % (mm.group(1) == "true"))
                    continue
                if l.startswith("hb.harvest "):
                    toks.append("Mhv")
                    continue
                mm = re.match(r"hb\.ic (\w+)$", l)
                if mm:
                    toks.append("Mic %d" % (mm.group(1) == "true"))
                    continue
                if l in ("hb.arm", "hb.idle"):
                    toks.append("Mfin")
                    toks.append("Marm %d" % (l == "hb.arm"))     # did the real code leave a timer wake-up behind
                    continue
                if l.startswith("r.take ") or l.startswith("restart done="):
                    # restart_matcher is atomic at its take (under the buffer lock), or — when it finds the reader done and takes
                    # nothing — at that reading; the token is a no-op once the step has been made
                    toks.append("Mfin")
                    continue
                mm = re.match(r"s1\.reads ic=(\w+) rs=(\w+)", l)
                if mm:
                    toks.append("Ms1 %d %d" % (mm.group(1) == "true", mm.group(2) == "true"))
                    continue
                mm = re.match(r"s1\.decide (\w+) n=(\d+)", l)
                if mm:
                    toks.append("Mdec")
                    toks.append("DEC %s %s" % (mm.group(1), mm.group(2)))
            toks.append("Me")
            if spawned is not None:
                live_id[0] = spawned
            if end is not None:
                snap, info = snap_tok(trace[end])
                toks.append(snap)
                prev_snap[0] = info
                toks.append("CUR %s" % (info["list"][info["cur"]] if info["cur"] < len(info["list"]) else "x"))
                dkey = "%s/%d" % (enc(info["dq"]), int(info["re"]))
                toks.append("DQ %d %d" % (qids.get(dkey, 999), cid_of.get(info["dcmd"], 99)))
                toks.append("CQ %s" % enc(info["cq"]))     # the command query the Model hands to the previewer ({cq}) vs. the one edited
                if info["pv"] != "-":
                    toks.append("PV %d %s" % (info["pv"] == "true", snap.rsplit(" ", 1)[1]))
                    toks.append("PVN %s %d %s" % (info["pvn"], info["nsel"], snap.rsplit(" ", 1)[1]))
            pos = e + 1 if end is not None else e
            continue
        if ev.startswith("EvActAccept") or ev == "EvActAbort":
            # the session ends here: reader and matcher are killed inside this handler, what their threads
            # log while dying is not part of the protocol
            pre, post = [], []
        toks.extend(pre)
        snap = None
        info = None
        if end is not None:
            snap, info = snap_tok(trace[end])
        # the editing event itself (drives the Lean editor model for C05's "query exactly as edited")
        mm = re.match(r"EvActAddChar\('(.)'\)", ev)
        if mm:
            toks.append("EV add:%d" % ord(mm.group(1)))
        elif ev == "EvActBackwardDeleteChar":
            toks.append("EV bdel")
        elif ev == "EvActToggleInteractive":
            toks.append("EV ti")
        elif ev == "EvActPreviousHistory":
            toks.append("EV prevh")
        elif ev == "EvActNextHistory":
            toks.append("EV nexth")
        # the handler token
        if ev == "EvHeartBeat":
            def rd(pat):
                for l in inner:
                    mm = re.search(pat, l)
                    if mm:
                        return "1" if mm.group(1) == "true" else "0"
                return "x"
            ms = rd(r"^hb\.ms (\w+)")
            rs = rd(r"^hb\.rs (\w+)")
            if rs == "x":
                rs = rd(r"hb\.rs2 (\w+)")
            ic = rd(r"^hb\.ic (\w+)")
            ic2 = rd(r"^s1\.reads ic=(\w+)")
            rs2 = rd(r"^s1\.reads ic=\w+ rs=(\w+)")
            toks.append("HB %s %s %s %s %s" % (rs, ms, ic, ic2, rs2))
            for l in inner:
                mm = re.match(r"s1\.decide (\w+) n=(\d+)", l)
                if mm:
                    toks.append("DEC %s %s" % (mm.group(1), mm.group(2)))
        elif cmdchange:
            name = None
            for l in inner:
                if l.startswith("feeder.start "):
                    name = l[len("feeder.start "):]
            cid = cid_of.get(name, 99)
            if cid == 99 and not any(t.startswith("SRC 99 ") for t in toks):
                toks.append("SRC 99 0")
            toks.append("Uc %d %d" % (cid, info["run"] if info else 0))
        elif "querychange" in inner:
            key = "%s/%d" % (enc(info["q"]), int(info["re"])) if info else init_key
            toks.append("Uq %d" % qids.get(key, 0))
        elif ev == "EvActToggle":
            ps = prev_snap[0]
            if ps and ps["cur"] < len(ps["list"]):
                toks.append("Ut %d" % ps["list"][ps["cur"]])
            else:
                toks.append("Uo")
        elif ev == "EvActSelectAll":
            toks.append("Usa")
        elif ev == "EvActToggleAll":
            toks.append("Uta")
        elif ev == "EvActDeselectAll":
            toks.append("Uda")
        elif ev.startswith("EvActAccept"):
            toks.append("Uacc")
        elif ev == "EvActAbort":
            toks.append("Uabo")
        else:
            toks.append("Uo")
        if spawned is not None:
            live_id[0] = spawned
        toks.extend(post)
        if snap:
            toks.append(snap)
            prev_snap[0] = info
            toks.append("CUR %s" % (info["list"][info["cur"]] if info["cur"] < len(info["list"]) else "x"))
            # what the query line shows at the end of the iteration: (query, mode) key and command of the DISPLAYED text
            dkey = "%s/%d" % (enc(info["dq"]), int(info["re"]))
            toks.append("DQ %d %d" % (qids.get(dkey, 999), cid_of.get(info["dcmd"], 99)))
            toks.append("CQ %s" % enc(info["cq"]))     # the command query the Model hands to the previewer ({cq}) vs. the one edited
            if info["pv"] != "-":
                toks.append("PV %d %s" % (info["pv"] == "true", snap.rsplit(" ", 1)[1]))
                toks.append("PVN %s %d %s" % (info["pvn"], info["nsel"], snap.rsplit(" ", 1)[1]))
        pos = e + 1 if end is not None else e
    for l in trace[pos:]:
        t = foreign(l)
        if t:
            toks.append(t)
    if "idle-timeout" in trace or out == "hang":
        toks.append("IDLEFAIL")
    toks.append(out_token(out, events, opts))
    return ";".join(toks)


KEYDBG = {"ctrl-x": "Ctrl('x')", "enter": "Enter", "alt-a": "Alt('a')", "": "Null"}


def out_token(out, events, opts):
    """OUT abort=<b> ev=<accept|abort|none> arg=<enc|none> key=<debug> query=<enc> cmd=<enc> items=<ids> ptr=<b>
           want_arg=<enc|none|any> want_key=<debug|any> init_q=<enc> inter=<b>"""
    if not out.startswith("abort="):
        return "OUT " + out.replace(" ", "_").replace(";", ",")
    f = dict(kv.split("=", 1) for kv in out.split(" "))
    ev = f["event"]
    if ev.startswith("EvActAccept"):
        kind = "accept"
        mm = re.match(r'EvActAccept\(Some\("(.*)"\)\)', ev)
        arg = enc(mm.group(1)) if mm else "none"
    elif ev == "EvActAbort":
        kind, arg = "abort", "none"
    else:
        kind, arg = "other", "none"
    ids = []
    for t in [x for x in f["items"].split(",") if x and x != "_"]:
        text = dec(t)
        mm = re.match(r".*-(\d+)\.(\d+)$", text)
        ids.append(str(int(mm.group(1)) * 100000 + int(mm.group(2))) if mm else "999999999")
    ptr = "1" if all(x == "1" for x in f["ptr"].split(",") if x != "_") else "0"
    want_arg, want_key = "any", "any"
    last = events[-1] if events else ""
    if last.startswith("accept"):
        ps = last.split(":")
        want_arg = ps[1] if len(ps) > 1 and ps[1] else "none"
        want_key = KEYDBG.get(dec(ps[2]) if len(ps) > 2 else "", "any")
    elif last == "abort":
        want_arg, want_key = "none", "Null"
    init_q = "-"
    for o in opts:
        if o.startswith("q="):
            init_q = o[2:]
    hist = {"hist": "_", "chist": "_"}
    for o in opts:
        for k in hist:
            if o.startswith(k + "="):
                hist[k] = o[len(k) + 1:]
    return "OUT abort=%d ev=%s arg=%s key=%s query=%s cmd=%s items=%s ptr=%s want_arg=%s want_key=%s init_q=%s inter=%d last=%s hist=%s chist=%s" % (
        int(f["abort"] == "true"), kind, arg, f["key"], f["query"], f["cmd"], ",".join(ids) or "_", ptr,
        want_arg, want_key, init_q, int("interactive" in opts), (last.split(":")[0] or "none"), hist["hist"], hist["chist"])
