"""C08 — reported match positions are valid and are a witness of the match."""
ID = "C08"
EXTRA_PROPS = ["AndMergeTables", "ReshapeFnsTables", "DisplayFnsTables", "EngineLoopTables", "RankFeedTables", "C08Translated"]   # merge_matched_items / range_char_indices as TRANSLATED from the source = the model
N_QUICK, N_THOROUGH = 12000, 500000
STRICT_MODEL = True
PARALLEL = 4
RULE = ("one (query, item) per case through the public factories: AndOrEngineFactory(ExactOrFuzzy) [t], ExactOrFuzzyEngineFactory alone [e], "
        "RegexEngineFactory [r]; items = DefaultSkimItem with --nth field ranges over 7 delimiters (incl. multi-byte and empty-matching ones) "
        "or a custom SkimItem serving raw byte ranges (clipped, overlapping, beyond the end, empty list); texts over "
        "{a b z k s A B Z 1 é 中 😀 ｗ İ ẞ Ⱥ (upper-case letters whose lower-case form has another byte length; texts only) tab blank , ; . - ( | \\ ^ $ ' !} of length 0..90 (long ones force the horizontal scroll); queries derived from the "
        "text (subsequences, substrings, case-flipped, anchored, inverted, AND / OR compositions, regexes incl. invalid and empty-matching); "
        "x case {smart,respect,ignore} x algo {skim_v1,skim_v2,clangd} x exact-mode; canvas width 3..80, tabstop 0..8, no_hscroll / keep_right. "
        "non-trivial = query and text non-empty; distinct by sha1 of the case line")
ASSUMPTIONS = [
    "regex crate: find() on a slice returns an ordered span inside the slice on char boundaries; for [(?i)][^]escape(lit)[$] the span is an occurrence "
    "of the literal under ASCII case folding and respects the anchors (checked on every answer; cased non-ASCII letters are not generated)",
    "fuzzy-matcher: fuzzy_indices returns strictly increasing char indices inside the slice, one per pattern char, each equal to it under the case "
    "rule (checked on every answer; the indices of the DP are validated, not predicted)",
    "unicode-width: per-char display widths are parameters (sent by the harness)",
    "texts shorter than 2^31 bytes (u32 / i32 casts of positions are not wrapped in the model)",
]

LOW, UP = "abzks", "ABZ"
OTHER = ["1", "é", "中", "😀", "ｗ", "\t", " ", " ", ",", ",", ";", ".", "-", "(", "|", "\\", "^", "$", "'", "!"]
DELIMS = [",", ",", "\t", " +", "[,;]", "中", "x*", ", "]
RANGES = ["1", "1", "2", "2", "3", "-1", "-1", "-2", "2..", "2..", "..2", "..2", "1..2", "2..3", "-2..", "..-2", "..", "..", "1..", "5", "0", "2..1", "x", "1..1"]
OPS_PRE = ["", "", "", "", "", "'", "'", "!", "^", "^", "'!", "!^", "'^"]
OPS_POST = ["", "", "", "", "$", "$"]
WIDTHS = [3, 4, 5, 6, 8, 10, 12, 16, 20, 30, 40, 80]
TABS = [8, 8, 8, 4, 2, 1, 0, 3]
CASES, ALGOS = "sri", "12c"
RE_META = set(".*+?()[]{}|\\^$")


def enc(s):
    return ".".join(str(ord(c)) for c in s) if s else "-"


def dec(s):
    return "" if s in ("-", "") else "".join(chr(int(t)) for t in s.split("."))


def rtext(rng):
    r = rng.random()
    if r < 0.04:
        return ""
    n = rng.choice([1, 2, 3, 5, 8, 12, 20]) if r < 0.7 else rng.randint(25, 90)
    style = rng.random()
    pool = list(LOW) * 3 + list(UP) + OTHER if style < 0.6 else (list(LOW) * 2 + ["中", "é", "😀", "ｗ", "\t", ",", " "] if style < 0.85 else list(LOW + UP) + [",", " "])
    t = "".join(rng.choice(pool) for _ in range(n))
    if rng.random() < 0.08:
        # a letter whose lower-case form has ANOTHER UTF-8 length (İ 2->3 bytes, ẞ 3->2, Ⱥ 2->3): offsets computed on a case-folded copy
        # of the text do not fit the text.  (None of them folds to an ASCII letter, so which items match is unaffected.)
        i = rng.randint(0, len(t))
        t = t[:i] + rng.choice(["İ", "ẞ", "Ⱥ"]) + t[i:]
    return t


def flipcase(rng, s, p=0.5):
    return "".join((c.swapcase() if c.isascii() and c.isalpha() and rng.random() < p else c) for c in s)


def region(rng, text):
    """the whole text or one of its comma / tab / blank separated pieces (a field of most delimiters)"""
    if rng.random() < 0.45 or not text:
        return text
    for d in rng.sample([",", "\t", " ", ";"], 4):
        if d in text:
            ps = [x for x in text.split(d) if x]
            if ps:
                return rng.choice(ps)
    return text


def clean(b, allow_blank):
    return b if allow_blank else b.replace(" ", "").replace("|", "")


def body_from(rng, text, allow_blank=False, kind="sub"):
    """a term body aimed at matching `text`: kind = seq (subsequence) | sub (substring) | pre | suf | all | rnd"""
    src = region(rng, text)
    if not allow_blank:
        src = clean(src, False)
    if not src or kind == "rnd":
        return "".join(rng.choice(list(LOW + UP) + ["中", "1"]) for _ in range(rng.randint(1, 3)))
    if kind == "seq":
        k = rng.randint(1, min(5, len(src)))
        idx = sorted(rng.sample(range(len(src)), k))
        b = "".join(src[i] for i in idx)
    elif kind == "pre":
        b = src[:rng.randint(1, 4)]
    elif kind == "suf":
        b = src[-rng.randint(1, 4):]
    elif kind == "all":
        b = src
    else:
        i = rng.randrange(len(src))
        b = src[i:i + rng.randint(1, 4)]
    if rng.random() < 0.15:
        b = flipcase(rng, b)
    return b


def rterm(rng, text, allow_blank=False):
    r = rng.random()
    if r < 0.38:
        return body_from(rng, text, allow_blank, "seq")
    if r < 0.52:
        return "'" + body_from(rng, text, allow_blank, "sub")
    if r < 0.64:
        return rng.choice(["^", "^", "'^"]) + body_from(rng, text, allow_blank, "pre")
    if r < 0.76:
        return rng.choice(["", "", "'"]) + body_from(rng, text, allow_blank, "suf") + "$"
    if r < 0.80:
        return "^" + body_from(rng, text, allow_blank, "all") + "$"
    if r < 0.90:
        return rng.choice(["!", "!", "!^", "'!"]) + body_from(rng, text, allow_blank, "rnd" if rng.random() < 0.75 else "sub") + rng.choice(["", "", "$"])
    return rng.choice(OPS_PRE) + body_from(rng, text, allow_blank, rng.choice(["seq", "sub", "rnd"])) + rng.choice(OPS_POST)


def rquery_t(rng, text):
    r = rng.random()
    if r < 0.03:
        return rng.choice(["", " ", "  ", "|", " | "])
    nalt = rng.choice([1, 1, 1, 2, 2, 3])
    alts = []
    for _ in range(nalt):
        nt = rng.choice([1, 1, 1, 2, 2, 3])
        alts.append(" ".join(rterm(rng, text).replace(" ", "\\ ") if rng.random() < 0.1 else rterm(rng, text) for _ in range(nt)))
    return " | ".join(alts)


def esc_re(s):
    return "".join("\\" + c if c in RE_META else c for c in s)


def rquery_r(rng, text):
    r = rng.random()
    if r < 0.06:
        return rng.choice(["(", "[", "a{", "\\", "*", "(?P<"])      # does not compile: matches everything at (0,0)
    if r < 0.12:
        return rng.choice(["", "x*", "\\b", "^", "$", "(?i)", "a*", "^$"])   # can match the empty string
    lit = esc_re(body_from(rng, text, True, "sub"))
    r = rng.random()
    if r < 0.35:
        q = lit
    elif r < 0.5:
        q = lit + "."
    elif r < 0.6:
        q = "." + lit
    elif r < 0.7:
        q = "^" + lit
    elif r < 0.8:
        q = lit + "$"
    elif r < 0.9:
        q = rng.choice(["[a-z]+", "\\w+", "[^,]+", ".", "..", ".*", ".+$", "\\S+", "[A-Z]", "中+", "\\t", "(a|b)+"])
    else:
        q = "(?i)" + flipcase(rng, lit)
    return q


def boundaries(text):
    out, off = [0], 0
    for c in text:
        off += len(c.encode("utf-8"))
        out.append(off)
    return out


def rnth(rng, text):
    r = rng.random()
    if r < 0.45:
        return "_"
    if r < 0.83:
        k = rng.choice([1, 1, 2, 2, 3])
        return ",".join(enc(rng.choice(RANGES)) for _ in range(k))
    if r < 0.84:
        return "@_"
    bs = boundaries(text)
    k = rng.choice([1, 1, 2, 3])
    out = []
    for _ in range(k):
        a, b = sorted((rng.choice(bs), rng.choice(bs)))
        x = rng.random()
        if x < 0.15:
            b = bs[-1] + rng.randint(1, 5)               # end beyond the text: clipped
        elif x < 0.22:
            a = bs[-1] + rng.randint(1, 3)               # both beyond the text: clipped to the empty slice at the end
            b = a + rng.randint(0, 3)
        out.append("%d-%d" % (a, b))
    return "@" + ",".join(out)


def line(mode, exact, cm, algo, query, text, delim, nth, w, tab, flags):
    return "%s;%d;%s;%s;%s;%s;%s;%s;%d;%d;%s" % (mode, int(exact), cm, algo, enc(query), enc(text), enc(delim), nth, w, tab, flags)


def gen(rng, tier, n):
    for i in range(n):
        text = rtext(rng)
        m = rng.random()
        mode = "t" if m < 0.55 else ("e" if m < 0.8 else "r")
        if mode == "t":
            q = rquery_t(rng, text)
        elif mode == "e":
            q = rterm(rng, text, True) if rng.random() < 0.95 else rng.choice(["", "!", "'", "^", "$", "^$", "!^", " "])
        else:
            q = rquery_r(rng, text)
        w = rng.choice(WIDTHS)
        if len(text) > 24 and rng.random() < 0.7:
            w = rng.choice([8, 10, 12, 16, 20, 30])
        yield line(mode, rng.random() < 0.12, rng.choice(CASES), rng.choice(ALGOS), q, text, rng.choice(DELIMS), rnth(rng, text),
                   w, rng.choice(TABS), rng.choice(["-", "-", "-", "h", "k", "hk"]))


def fields(case):
    return case.split(";")


def nontrivial(case):
    f = fields(case)
    return len(f) == 11 and f[4] != "-" and f[5] != "-"


def histogram_keys(case):
    f = fields(case)
    if len(f) != 11:
        return ["malformed"]
    q, t = dec(f[4]), dec(f[5])
    ks = ["mode=" + f[0], "case=" + f[2], "algo=" + f[3]]
    if f[1] == "1":
        ks.append("exact-mode")
    ks.append("nth=" + ("none" if f[7] == "_" else ("raw" if f[7].startswith("@") else "fields")))
    if any(ord(c) > 127 for c in t):
        ks.append("text:multibyte")
    if "\t" in t:
        ks.append("text:tab")
    if not t:
        ks.append("text:empty")
    if len(t) + 2 > int(f[8]):
        ks.append("text:longer-than-canvas")
    if f[0] == "t":
        if " | " in q:
            ks.append("query:or")
        if any(len(a.split()) > 1 for a in q.split(" | ")):
            ks.append("query:and")
    if f[0] != "r":
        for op, name in (("!", "inverse"), ("^", "prefix"), ("$", "suffix"), ("'", "quote")):
            if op in q:
                ks.append("query:" + name)
    if "h" in f[10]:
        ks.append("no_hscroll")
    if "k" in f[10]:
        ks.append("keep_right")
    return ks


def shrink_candidates(case):
    f = fields(case)
    if len(f) != 11:
        return []
    out = []

    def put(i, v):
        g = list(f)
        g[i] = v
        out.append(";".join(g))

    raw_ranges = f[7].startswith("@") and f[7] != "@_"
    for i in (4, 5):
        if i == 5 and raw_ranges:
            continue            # raw byte ranges are only meaningful for the text they were generated for
        toks = [] if f[i] == "-" else f[i].split(".")
        n = len(toks)
        size = max(n // 2, 1)
        while size >= 1 and n:
            for k in range(0, n, size):
                cand = toks[:k] + toks[k + size:]
                put(i, ".".join(cand) or "-")
            if size == 1:
                break
            size //= 2
    if f[7] != "_":
        put(7, "_")
        raw = f[7].startswith("@")
        items = [x for x in f[7].lstrip("@").split(",") if x and x != "_"]
        for k in range(len(items)):
            rest = items[:k] + items[k + 1:]
            put(7, ("@" if raw else "") + (",".join(rest) or "_"))
    if f[10] != "-":
        put(10, "-")
    if f[8] != "20":
        put(8, "20")
    if f[9] != "8":
        put(9, "8")
    if f[1] != "0":
        put(1, "0")
    return out


def classify(r):
    return None


TECHNIQUE = ("Lean 4 proofs about the position arithmetic around the matchers (range loop, byte / char shifts, range_char_indices, AND merge, "
             "display fragments, match_start/end, reshape_string) under explicit contracts of the external matchers + differential "
             "correspondence through the public engine factories, SkimItem::display and the real Selection drawn on a recording canvas")
LEVEL_TEXT = ("Theorems c08_* prove for ALL texts, ranges and matcher answers satisfying the stated contracts: byte spans are ordered, inside the text, "
              "on char boundaries and an occurrence of the term (0,0 for inverse / match-all / no-regex); fuzzy indices are strictly increasing, inside "
              "the text and a witness of the subsequence verdict under the case rule; an AND report is the strictly increasing duplicate-free union; "
              "range_char_indices yields the contiguous char indices; display, match_start/end, reshape_string and the shift never panic on valid positions. "
              "The model is tied to the code by running generated cases through the public factories and diffing matched_range, rank keys and highlight, "
              "with the contracts of regex / fuzzy-matcher validated on every real answer.")
LEVEL_NOTE = ("Trusted: Lean kernel + propext/Classical.choice/Quot.sound; the hand-written model is tied to the code only by the differential correspondence; "
              "regex crate, fuzzy-matcher and unicode-width are parameters with contracts checked per run, not proved.")
TECHNIQUE += ' + translator tie: AndEngine::merge_matched_items (rank source, per-kind contribution, sort/dedup passes) and MatchResult::range_char_indices (the two counted slices) translated from src/engine/andor.rs and src/lib.rs and proved equal to the model (Props/AndMergeTables.lean)'
TECHNIQUE += '; reshape_string of src/util.rs translated statement by statement and proved to return the model value wherever the model says no panic (Props/ReshapeFnsTables.lean)'
TECHNIQUE += '; the highlight fragments built by From<DisplayContext> / DefaultSkimItem::display translated and proved equal to Positions.fragments (Props/DisplayFnsTables.lean)'
TECHNIQUE += '; the loop of match_item over the matching ranges in the exact / regex / fuzzy engines translated and proved equal to Field.matchBytes / matchChars (Props/EngineLoopTables.lean)'
