"""Sub-stream of C12: the pty stream of c05cli.py restricted to its field cases (`-d ,`, optional `--with-nth`, `{N}` placeholders in an
execute binding and in the preview command), judged on the commands handed to $SHELL only (stream id C07CLI): the `{N}` placeholders
the Model expands name the designated fields of the ORIGINAL line under the configured delimiter — in execute actions and in the
preview alike."""
from .c05cli import *          # noqa: F401,F403
from . import c05cli as _base
ID = "C12"
HARNESS_PROP = "C07CLI"
NEEDS_SK = True
N_QUICK, N_THOROUGH = 16, 300
STRICT_MODEL = False
SHRINK_ROUNDS, SHRINK_BATCH, PY_PARALLEL = _base.SHRINK_ROUNDS, _base.SHRINK_BATCH, _base.PY_PARALLEL
RULE = "the field cases of the pty stream (-d , / --with-nth / {N} in execute-silent and --preview) — judged on the commands handed to $SHELL only"
python_harness = _base.python_harness


def gen(rng, tier, n):
    k = 0
    for c in _base.gen(rng, tier, 40 * n):
        if "|d=" in c or ",d=" in c:
            k += 1
            yield c
            if k >= n:
                return
