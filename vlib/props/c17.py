"""C17 — match highlight laid over coloured text changes only the matched characters."""
import itertools

ID = "C17"
EXTRA_PROPS = ["MergeFnsTables"]   # one iteration of the while loop of merge_fragments as TRANSLATED from src/ansi.rs = one step of the model's literal loop
N_QUICK, N_THOROUGH = 20000, 150000
RULE = ("quick: random ordered (coloured, highlight) range-list pairs over texts of n <= 40 characters (gaps 0 = adjacent, lengths 0 = "
        "empty ranges, nested / covering / straddling arrangements forced), through merge_fragments (M), new_string+override_attrs+iter (O), "
        "DefaultSkimItem::display on ANSI-rendered text (D) and AnsiString::from(DisplayContext) (F), plus ~6% malformed (unordered / "
        "overlapping / reversed ranges, byte ranges off a char boundary); thorough: additionally EVERY pair of ordered lists of non-empty "
        "ranges over n <= 7 characters (610^2 pairs, M) and n <= 6 (233^2, O), and every pair of ordered lists with at most one empty range "
        "per position over n <= 3 characters (164^2, M and O); non-trivial = both lists ordered and non-empty with at least one highlight "
        "range touching or overlapping a coloured range (D/F: a non-empty match set; D: over at least one coloured character); "
        "distinct by sha1 of the case line")
ASSUMPTIONS = [
    "range coordinates handed to merge_fragments / override_attrs are u32 in the code and Nat in the model (only max/compare happens on them); "
    "the casts `idx as u32`, `idx as u32 + 1` of display ARE modelled (truncation, overflow panic under overflow checks) and exercised",
    "ANSIParser::parse_ansi turns one-SGR-per-colour-change text into one fragment per maximal run (incl. default-attribute runs); "
    "this small parser model lives in the driver only and is validated by the D stream (C16 owns the parser)",
]
ALPHA = [ord(c) for c in "abcxyz01 _-/."] + [0xE9, 0xE9, 0x4E2D, 0x4E2D, 0x1F600, 0x3000]


def enc(s):
    return ".".join(str(c) for c in s) if s else "-"


def sfr(fs):
    return " ".join("%d:%d:%d" % f for f in fs) if fs else "_"


def pfr(s):
    if s in ("_", ""):
        return []
    return [tuple(int(x) for x in t.split(":")) for t in s.split(" ") if t]


def ordered(fs):
    lo = 0
    for (_, s, e) in fs:
        if s < lo or e < s:
            return False
        lo = e
    return True


# ---------------------------------------------------------------- random arrangements

def rlist(rng, n, tagbase, dens=None):
    """ordered list of ranges within [0, n] (occasionally one beyond n)"""
    dens = rng.choice([0.15, 0.4, 0.8]) if dens is None else dens
    out, p, i = [], 0, 0
    lim = n + (2 if rng.random() < 0.1 else 0)
    while p <= lim and len(out) < 12:
        if rng.random() > dens:
            p += rng.choice([1, 1, 2, 3, 5])
            continue
        ln = rng.choice([0, 1, 1, 2, 3, 4, 7, 12])
        e = min(p + ln, lim)
        out.append((tagbase + (i % 5), p, e))
        i += 1
        p = e + rng.choice([0, 0, 1, 2, 4])
        if e == p and ln == 0 and rng.random() < 0.5:
            p += 1
    return out


def rpair(rng, n):
    """(old, new) with the interesting relations forced: new derived from old's boundaries half of the time"""
    old = rlist(rng, n, 1)
    if old and rng.random() < 0.55:
        pts = sorted(set([0, n] + [x for (_, s, e) in old for x in (s, e, max(s - 1, 0), e + 1, (s + e) // 2)]))
        k = rng.randint(1, min(4, len(pts)))
        cuts = sorted(rng.choice(pts) for _ in range(2 * k))
        new = [(10 + (j % 5), cuts[2 * j], cuts[2 * j + 1]) for j in range(k)]
    else:
        new = rlist(rng, n, 10)
    return old, new


def rtext(rng, n):
    return [rng.choice(ALPHA) for _ in range(n)]


def blen(c):
    return 1 if c < 0x80 else 2 if c < 0x800 else 3 if c < 0x10000 else 4


def rtags(rng, n):
    tags, cur = [], 0
    for _ in range(n):
        if rng.random() < 0.3:
            cur = rng.choice([0, 0, 1, 2, 3, 4])
        tags.append(cur)
    return tags


def rmatches(rng, text, malformed):
    n = len(text)
    r = rng.random()
    if r < 0.08:
        return "none"
    if r < 0.55:
        k = rng.randint(0, min(n + 1, 8))
        idx = sorted(rng.sample(range(n + 2), min(k, n + 2)))
        if rng.random() < 0.03:      # the u32 casts of display: u32::MAX overflows, 2^32 + i wraps to i
            idx.append(rng.choice([4294967294, 4294967295, 4294967296, 4294967296 + rng.randint(0, n + 1)]))
        if malformed and len(idx) >= 2:
            rng.shuffle(idx)
            idx.append(idx[0])
        return "ci:" + (",".join(map(str, idx)) if idx else "_")
    if r < 0.75:
        s = rng.randint(0, n + 1)
        e = rng.randint(s, n + 2)
        if malformed and s > 0:
            s, e = e, s - 1
        if rng.random() < 0.03:
            e += 4294967296
        return "cr:%d:%d" % (s, e)
    offs = [0]
    for c in text:
        offs.append(offs[-1] + blen(c))
    s = rng.choice(offs)
    e = rng.choice([o for o in offs if o >= s])
    if malformed:
        s, e = rng.randint(0, offs[-1] + 2), rng.randint(0, offs[-1] + 2)
    return "br:%d:%d" % (s, e)


def random_case(rng):
    n = rng.choice([0, 1, 2, 3, 5, 8, 13, 21, 40])
    malformed = rng.random() < 0.06
    r = rng.random()
    if r < 0.45 or (malformed and r < 0.7):
        old, new = rpair(rng, n)
        if malformed:
            both = old + new
            rng.shuffle(both)
            h = rng.randint(0, len(both))
            old, new = both[:h], both[h:]
            if new and rng.random() < 0.5:
                t, s, e = new[0]
                new[0] = (t, e + 1, s)
        return "M|%s|%s" % (sfr(old), sfr(new))
    if r < 0.75:
        old, new = rpair(rng, n)
        if rng.random() < 0.15:
            old = []
        elif rng.random() < 0.1:
            old = [(0, 0, n)]          # single default-attribute fragment: stored as None
        m = max(n + rng.choice([0, 0, 0, -2, 3]), 0)
        return "O;%s|%s|%s" % (enc(rtext(rng, m)), sfr(old), sfr(new))
    text = rtext(rng, n)
    hl = rng.choice([7, 7, 7, 1, 2, 0])
    if r < 0.93:
        return "D;%s;%d|%s|%s" % (enc(text), hl, ",".join(map(str, rtags(rng, n))) or "_", rmatches(rng, text, malformed))
    return "F;%s;%d|_|%s" % (enc(text), hl, rmatches(rng, text, malformed))


# ---------------------------------------------------------------- complete enumeration

def all_lists(n, empties, tagbase):
    """every ordered list of ranges over positions 0..n; with `empties` at most one empty range per position
    (any number of repeated empty ranges would make the space infinite)"""
    def go(p, i):
        if p > n:
            yield []
            return
        for emp in ([False, True] if empties else [False]):
            pre = [(tagbase + i, p, p)] if emp else []
            j = i + len(pre)
            for rest in go(p + 1, j):
                yield pre + rest
            for q in range(p + 1, n + 1):
                for rest in go_from(q, j + 1):
                    yield pre + [(tagbase + j, p, q)] + rest
    def go_from(q, i):
        # after a range ending at q the next start is >= q
        return go(q, i)
    return list(go(0, 0))


def enumerate_cases():
    ls = all_lists(7, False, 1)
    ns = [sfr(x) for x in all_lists(7, False, 20)]
    for o in ls:
        so = sfr(o)
        for nw in ns:
            yield "M|%s|%s" % (so, nw)
    ls = all_lists(3, True, 1)
    ns = all_lists(3, True, 20)
    txt = enc([97, 0xE9, 0x4E2D])
    for o in ls:
        so = sfr(o)
        for nw in ns:
            yield "M|%s|%s" % (so, sfr(nw))
            yield "O;%s|%s|%s" % (txt, so, sfr(nw))
    ls = all_lists(6, False, 1)
    ns = all_lists(6, False, 20)
    txt = enc([97, 0xE9, 0x4E2D, 98, 0x1F600, 0x3000])
    for o in ls:
        so = sfr(o)
        for nw in ns:
            yield "O;%s|%s|%s" % (txt, so, sfr(nw))


def gen(rng, tier, n):
    if tier == "thorough":
        for c in enumerate_cases():
            yield c
    else:
        # a complete small slice in the quick tier too: all pairs over n <= 3 without empty ranges (13^2)
        ls, ns = all_lists(3, False, 1), all_lists(3, False, 20)
        for o in ls:
            for nw in ns:
                yield "M|%s|%s" % (sfr(o), sfr(nw))
    for _ in range(n):
        yield random_case(rng)


# ---------------------------------------------------------------- bookkeeping

def relation(o, nw):
    (_, os, oe), (_, ns, ne) = o, nw
    if ns == ne:
        return "empty-new-inside" if os < ns < oe else ("empty-new-at-edge" if ns in (os, oe) else None)
    if os == oe:
        return "empty-old-in-new" if ns <= os <= ne else None
    if ne < os or oe < ns:
        return None
    if ne == os or oe == ns:
        return "adjacent"
    if ns <= os and oe <= ne:
        return "new-covers-old" if (ns, ne) != (os, oe) else "identical"
    if os <= ns and ne <= oe:
        return "new-nested-in-old"
    return "straddle-left" if ns < os else "straddle-right"


def parts(case):
    hd, a, b = case.split("|")
    return hd.split(";"), a, b


def nontrivial(case):
    try:
        hd, a, b = parts(case)
        if hd[0] in ("M", "O"):
            old, new = pfr(a), pfr(b)
            return bool(old) and bool(new) and ordered(old) and ordered(new) and any(
                relation(o, nw) for o in old for nw in new)
        if b == "none" or b.endswith(":_"):
            return False
        return hd[0] == "F" or any(t != "0" for t in a.split(","))
    except Exception:
        return False


def histogram_keys(case):
    try:
        hd, a, b = parts(case)
        ks = ["kind=" + hd[0]]
        if hd[0] in ("M", "O"):
            old, new = pfr(a), pfr(b)
            if not (ordered(old) and ordered(new)):
                return ks + ["malformed"]
            ks.append("old=%s new=%s" % (min(len(old), 4), min(len(new), 4)))
            rel = set(filter(None, (relation(o, nw) for o in old for nw in new)))
            ks += sorted(rel) or ["disjoint-only"]
            if any(sum(1 for o in old if relation(o, nw) not in (None, "adjacent")) >= 2 for nw in new):
                ks.append("new-spans-several-old")
            if any(sum(1 for nw in new if relation(o, nw) not in (None, "adjacent")) >= 2 for o in old):
                ks.append("old-hit-by-several-new")
            m = max([e for (_, _, e) in old + new] + [0])
            ks.append("n<=%d" % next(x for x in (3, 7, 15, 45, 10 ** 9) if m <= x))
        else:
            ks.append("matches=" + b.split(":")[0])
        return ks
    except Exception:
        return ["unparsable"]


def shrink_candidates(case):
    hd, a, b = case.split("|")
    out = []
    kind = hd.split(";")[0]
    if kind in ("M", "O"):
        old, new = pfr(a), pfr(b)
        for i in range(len(old)):
            out.append("%s|%s|%s" % (hd, sfr(old[:i] + old[i + 1:]), b))
        for i in range(len(new)):
            out.append("%s|%s|%s" % (hd, a, sfr(new[:i] + new[i + 1:])))
        for lst, which in ((old, 0), (new, 1)):
            for i, (t, s, e) in enumerate(lst):
                for (s2, e2) in ((s, e - 1), (s + 1, e), (s - 1, e - 1)):
                    if 0 <= s2 <= e2:
                        l2 = lst[:i] + [(t, s2, e2)] + lst[i + 1:]
                        out.append("%s|%s|%s" % (hd, sfr(l2) if which == 0 else a, sfr(l2) if which == 1 else b))
    else:
        if b.startswith("ci:") and b != "ci:_":
            idx = b[3:].split(",")
            for i in range(len(idx)):
                rest = idx[:i] + idx[i + 1:]
                out.append("%s|%s|ci:%s" % (hd, a, ",".join(rest) or "_"))
        if kind == "D" and a not in ("_", ""):
            tags = a.split(",")
            for i, t in enumerate(tags):
                if t != "0":
                    out.append("%s|%s|%s" % (hd, ",".join(tags[:i] + ["0"] + tags[i + 1:]), b))
    return out


def classify(r):
    return None


TECHNIQUE = ("Lean 4 proof of the pointwise law and of orderedness for the two-pointer merge (all ordered inputs, any text length) "
             "+ differential correspondence of the model against the real merge_fragments / override_attrs / iter / display")
LEVEL_TEXT = ("Theorems c17_pointwise / c17_ordered prove for every pair of ordered fragment lists (empty ranges allowed, no bound on the text "
              "length) that the merged list is ordered and non-overlapping and that the attribute AnsiStringIterator shows at every character is the "
              "highlight attribute inside a non-empty highlight range and the previous attribute elsewhere; c17_iter_lookup ties the stateful "
              "iterator walk to the declarative lookup, c17_override / c17_display cover the None / empty cases and the construction of the highlight "
              "ranges. The model is tied to the code by running the same range lists through the real merge_fragments, override_attrs + iter, "
              "DefaultSkimItem::display and From<DisplayContext>; the thorough tier does so for every pair of ordered lists over short texts.")
LEVEL_NOTE = ("Trusted: Lean kernel + propext/Classical.choice/Quot.sound; the hand-written model of merge_fragments (with the non-advancing branch "
              "inlined; c17_loop_eq proves it equal to the literal one-branch-per-iteration loop) is tied to the code only by the differential "
              "correspondence; u32 coordinates are modelled as Nat (no arithmetic other than max/compare happens on them), the usize->u32 casts of "
              "display are modelled. Comparison is at the observable level: per-character attributes for O/D/F; for M on ordered inputs an "
              "implementation vector that is ordered and denotes the same character->attribute function as the model's counts as agreement "
              "(an extra or missing empty fragment is not a difference), the Lean spec checker judges the implementation's own vector. "
              "The real code runs in a forked worker with a memory limit and a per-case deadline, so a spinning merge loop is reported as hang/crash.")

TECHNIQUE += " + translator tie: one iteration of the while loop of merge_fragments translated from src/ansi.rs and proved equal to one step of the model's literal loop (Props/MergeFnsTables.lean)"
