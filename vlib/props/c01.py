"""C01 — streaming filter: headless sessions, trace acceptance by the Lean Session model, end-state oracle."""
from . import session
ID = "C01"
HARNESS_PROP = "C01"
N_QUICK, N_THOROUGH = 320, 12000
PARALLEL = 16
HARNESS_TIMEOUT = 600
STRICT_MODEL = False
SHRINK_BATCH = 48
SHRINK_ROUNDS = 12
postprocess = session.postprocess
RULE = ("headless sessions of the real Model (held Term, scripted command feeder): item streams of 0..120 items chunked in time, "
        "0..12 events over {type/backspace, rotate-mode, toggle-interactive, refresh-cmd, command edits, idle waits, selection actions}, "
        "25% under forced schedules aimed at the reader-finish and matcher-finish windows; every recorded trace of shared-memory steps is "
        "replayed through the Lean transition system (must be accepted and predict every snapshot) and every quiescent snapshot of the REAL model is "
        "judged against filter(source, current query). non-trivial = >= 2 chunks or >= 1 query/command event, and >= 1 item; distinct by sha1")
EXTRA_PROPS = ["SessionFG", "HeartBeatTables", "C01Fair"]   # C01Fair: liveness under weak fairness; the same statements at READ granularity (Props/SessionFG.lean)
ASSUMPTIONS = ["granularity: the theorems fg_* are proved for the system in which the heart-beat handler is split at every read of a foreign flag and other threads run between any two "
               "reads (Model/SessionFG.lean); what stays atomic there: the harvest (one critical section), restart_matcher (no matcher thread exists while it runs; reader pushes commute "
               "with it) and the user-event handlers (kill = store + join). Heart-beat iterations of the trace are replayed through the same fine-grained system in trace order (nothing moved)",
               "rayon's par_iter inside one matcher run is one atomic tPublish; channels are FIFO; the timer fires unless its guard is dropped",
               "the per-item verdict of the engines is a parameter (match table computed with the real engine factories)"]


def gen(rng, tier, n):
    for i in range(n):
        yield session.gen_session(rng, "c01")


def nontrivial(case):
    opts, cmds, order, events, rules = session.parse_case(case)
    return sum(cmds.values()) >= 1 and (case.count("/") >= 1 or any(e.split(":")[0] in ("add", "bs", "rot", "refresh", "ti") for e in events))


def histogram_keys(case):
    opts, cmds, order, events, rules = session.parse_case(case)
    ks = ["opt:" + o.split("=")[0] for o in opts]
    ks += sorted(set("ev:" + e.split(":")[0] for e in events))
    ks.append("rules" if rules != "-" else "free-running")
    n = cmds.get("c0", 0)
    ks.append("n0<=%d" % next(b for b in (0, 1, 3, 8, 30, 120, 10**9) if n <= b))
    return ks


def shrink_candidates(case):
    p = case.split("|")
    evs = p[3].split()
    out = []
    for i in range(len(evs)):
        out.append("|".join(p[:3] + [" ".join(evs[:i] + evs[i + 1:])] + p[4:]))
    return out


def classify(r):
    return None


TECHNIQUE = "Lean 4 invariant proof over a labelled transition system (reader/matcher/timer/event-loop; all label sequences) + trace acceptance of real headless sessions by that transition system + end-state oracle on the real model's snapshots"
LEVEL_TEXT = ("c01_invariant proves the accounting invariant for every history of the Session transition system (every interleaving of reader, matcher thread, timer and "
              "event loop, every chunking, every query/mode/command history); c01_quiescent_exact derives that at quiescence the list is exactly the matching items of the "
              "current source for the current query (nothing stale), session_item_index that identities are input positions; liveness is carried by c01_wakeup_pending and "
              "c01_no_deadlock (a wake-up is always pending, no non-quiescent state is stuck). c01_prefix_counterexample exhibits the pre-fix race. fg_invariant / fg_quiescent_exact "
              "are the same safety statements for the fine-grained system (handler split at every read, accurate or stale readings, any steps of other threads in between); "
              "fg_contains_atomic: the atomic handler is one of its schedules. "
              "Tie: real sessions emit an ordered trace of their shared-memory steps; the Lean step function must accept it and predict list/selection/clear state after every loop iteration.")
LEVEL_NOTE = ("PARTIAL for liveness: termination needs weak fairness of the four threads, which is not formalised. Granularity: safety is proved at read granularity (fg_*); the trace replay of heart beats is at read granularity too (trace order, nothing moved); liveness is stated for the "
              "coarse system (atomic handlers with stale-false reads). Trusted: Lean kernel, the trace hooks (feature `verif`) and vlib/props/session.py (linearisation rules stated there), rayon/crossbeam/timer.")

TECHNIQUE += ' + weak-fairness liveness theorem (c01_fair_quiescence: helpful-class rule over infinite executions, Props/C01Fair.lean)'
