"""Runner core: build steps, pipes to the Rust harness and the Lean driver, judgement, shrinking,
evidence.  One entry point: run_property(prop_module, tier, seed, replay)."""
import fcntl, hashlib, json, os, re, subprocess, sys, time

ROOT = os.path.dirname(os.path.dirname(os.path.abspath(__file__)))
LEAN = os.path.join(ROOT, "lean")
HARNESS = os.path.join(ROOT, "harness")
REPO = os.environ.get("VERIF_REPO", "/repo")
DRIVER = os.path.join(LEAN, ".lake", "build", "bin", "skimdriver")
HBIN = os.path.join(HARNESS, "target", "debug", "skim-verif-harness")
ALLOWED_AXIOMS = {"propext", "Classical.choice", "Quot.sound"}
FORBIDDEN = re.compile(r"\b(sorry|admit|native_decide|bv_decide|implemented_by)\b|^axiom |unsafe |maxHeartbeats 0", re.M)

ENV = dict(os.environ, CARGO_NET_OFFLINE="true")


class BuildError(Exception):
    def __init__(self, stage, detail):
        super().__init__(stage)
        self.stage, self.detail = stage, detail


class Lock:
    def __init__(self, name):
        self.path = os.path.join(ROOT, ".lock-" + name)

    def __enter__(self):
        self.f = open(self.path, "w")
        fcntl.flock(self.f, fcntl.LOCK_EX)

    def __exit__(self, *a):
        fcntl.flock(self.f, fcntl.LOCK_UN)
        self.f.close()


def sh(cmd, cwd=None, timeout=3600, env=None):
    p = subprocess.run(cmd, cwd=cwd, env=env or ENV, stdout=subprocess.PIPE, stderr=subprocess.STDOUT,
                       timeout=timeout, text=True, errors="replace")
    return p.returncode, p.stdout


def strip_comments(src):
    src = re.sub(r"/-.*?-/", "", src, flags=re.S)
    return re.sub(r"--.*", "", src)


def lean_sources():
    out = []
    for d, _, fs in os.walk(LEAN):
        if ".lake" in d:
            continue
        for f in fs:
            if f.endswith(".lean"):
                out.append(os.path.join(d, f))
    return out


def import_closure(mods):
    """transitive `import SkimModel.…` closure of the given Lean modules"""
    seen, stack = set(), list(mods)
    while stack:
        m = stack.pop()
        if m in seen:
            continue
        seen.add(m)
        path = os.path.join(LEAN, *m.split(".")) + ".lean"
        if not os.path.exists(path):
            continue
        for line in open(path):
            mm = re.match(r"^import\s+(SkimModel\.\S+)", line)
            if mm:
                stack.append(mm.group(1))
    return seen


# translators that did not understand the source in this run: (generated module, extractor file, reason)
STALE = []

# which Lean driver module answers for a harness stream id (default: Driver/<id>.lean)
DRIVER_OF = {"C01": "C01", "C14": "C01", "C05": "C01", "C10S": "C01", "C20S": "C01", "C07S": "C01", "C05CLI": "C05Cli", "C07CLI": "C05Cli"}


def prop_modules(prop, mod=None):
    """every Lean module this property's theorems and correspondence streams depend on"""
    ms = ["SkimModel.Props." + prop] + ["SkimModel.Props." + e for e in (getattr(mod, "EXTRA_PROPS", ()) if mod else ())]
    hps = [getattr(mod, "HARNESS_PROP", prop) if mod else prop]
    if mod is not None:
        import importlib as _il
        for n in getattr(mod, "SUBMODULES", []):
            hps.append(getattr(_il.import_module("vlib.props." + n), "HARNESS_PROP", prop))
    for hp in hps:
        ms.append("SkimModel.Driver." + DRIVER_OF.get(hp, hp))
    return import_closure(ms)


def extract_tables(prop=None, mod=None):
    """source -> Generated.lean (tables and constants).  Fails closed — for the properties that depend on the table: an
    extractor that no longer understands its source file is no reason to alarm a property that never looks at that table."""
    tool = os.path.join(ROOT, "tools", "extract.py")
    if not os.path.exists(tool):
        return
    rc, out = sh([sys.executable, tool, REPO, LEAN])
    if rc != 0:
        failed = re.findall(r"EXTRACTOR-FAILED (\S+)", out)
        if prop is None or not failed:
            raise BuildError("extractor", out[-4000:])
        deps = prop_modules(prop, mod)
        stale = []
        for f in failed:
            try:
                name = re.search(r'^NAME\s*=\s*"(\w+)"', open(os.path.join(ROOT, "tools", "extractors", f)).read(), re.M).group(1)
            except Exception:
                name = None
            if name is None or ("SkimModel.Generated." + name) in deps:
                # the translator does not UNDERSTAND the current source (it never guesses).  The table it wrote for the last tree it
                # understood stays in place; this run ties the property to the code by the correspondence streams alone, searches
                # five times as many cases, and says so (NOTE line, evidence).  A table that IS re-translated and no longer satisfies
                # its theorem is a broken proof as before.
                if name is None or not os.path.exists(os.path.join(LEAN, "SkimModel", "Generated", name + ".lean")):
                    raise BuildError("extractor", out[-4000:])
                why = ""
                mm = re.search(r"EXTRACTOR-FAILED %s\n(?:.*\n)*?(\w*(?:Error|Exception)[^\n]*)" % re.escape(f), out)
                if mm:
                    why = mm.group(1)[:300]
                stale.append((name, f, why))
        return stale
    return []


def theorems_of(prop):
    """fully qualified names of every `theorem` in Props/<prop>.lean (namespace blocks tracked)"""
    path = os.path.join(LEAN, "SkimModel", "Props", prop + ".lean")
    src = strip_comments(open(path).read())
    stack, out = [], []
    for line in src.split("\n"):
        m = re.match(r"^namespace\s+(\S+)", line)
        if m:
            stack.append(m.group(1))
            continue
        m = re.match(r"^end\s+(\S+)", line)
        if m and stack and stack[-1] == m.group(1):
            stack.pop()
            continue
        m = re.match(r"^(?:private\s+|protected\s+)?theorem\s+(\S+)", line)
        if m:
            out.append(".".join(stack + [m.group(1)]))
    return out


def lean_build(prop, thorough=False, extra=(), mod=None):
    """lake build of the property's theorem module(s) and the driver; axiom audit."""
    with Lock("lake"):
        STALE[:] = extract_tables(prop, mod) or []
        bad = []
        for f in lean_sources():
            m = FORBIDDEN.search(strip_comments(open(f).read()))
            if m:
                bad.append("%s: %s" % (f, m.group(0)))
        if bad:
            raise BuildError("forbidden-construct", "\n".join(bad))
        rc, out = sh(["lake", "build", "SkimModel.Props." + prop] + ["SkimModel.Props." + e for e in extra], cwd=LEAN)
        if rc != 0:
            raise BuildError("proof", out[-6000:])
        # the driver executable links the driver modules of ALL properties: a module of another property that no longer builds
        # (say, its generated table changed shape) is that property's alarm, not this one's — the driver built last serves
        rc, out = sh(["lake", "build", "skimdriver"], cwd=LEAN)
        if rc != 0:
            broken = set(re.findall(r"Building (SkimModel\.\S+)", "\n".join(l for l in out.split("\n") if "✖" in l)))
            broken |= set("SkimModel." + m.replace("/", ".") for m in re.findall(r"error: SkimModel/(\S+?)\.lean:", out))
            deps = prop_modules(prop, mod)
            if not broken or (broken & deps) or not os.path.exists(DRIVER):
                raise BuildError("proof", out[-6000:])
        thms = theorems_of(prop)
        for e in extra:
            thms += theorems_of(e)
        os.makedirs(os.path.join(LEAN, ".audit"), exist_ok=True)
        af = os.path.join(LEAN, ".audit", prop + ".lean")
        with open(af, "w") as f:
            f.write("import SkimModel.Props.%s\n" % prop)
            for e in extra:
                f.write("import SkimModel.Props.%s\n" % e)
            for t in thms:
                f.write("#print axioms %s\n" % t)
        rc, out = sh(["lake", "env", "lean", af], cwd=LEAN)
        if rc != 0:
            raise BuildError("audit", out[-4000:])
        audited = {}
        for m in re.finditer(r"'([^']+)' (does not depend on any axioms|depends on axioms: \[([^\]]*)\])", out):
            axs = [a.strip() for a in (m.group(3) or "").replace("\n", " ").split(",") if a.strip()]
            audited[m.group(1)] = axs
        missing = [t for t in thms if t not in audited]
        if missing:
            raise BuildError("audit", "no axiom report for: %s\n%s" % (missing, out[-2000:]))
        dirty = {t: a for t, a in audited.items() if not set(a) <= ALLOWED_AXIOMS}
        if dirty:
            raise BuildError("axioms", json.dumps(dirty))
        checker = "lake build SkimModel.Props.%s && lake env lean .audit/%s.lean  (#print axioms)" % (prop, prop)
        if thorough:
            for pm in [prop] + list(extra):
                rc, out = sh(["lake", "env", "leanchecker", "SkimModel.Props." + pm], cwd=LEAN)
                if rc != 0:
                    raise BuildError("leanchecker", out[-4000:])
            checker += " && lake env leanchecker SkimModel.Props.%s" % prop
        return thms, audited, checker


# cargo feature of the harness crate that holds the module answering for a harness stream id
FEATURE_OF = {"C01": "c01", "C14": "c01", "C05": "c01", "C10S": "c01", "C20S": "c01", "C07S": "c01", "C05CLI": None, "C07CLI": None}


def harness_build(prop=None, mod=None):
    """builds the correspondence harness against /repo's working tree.  The harness links one module per property; when the whole
    crate no longer builds (a signature that SOME module uses has changed) the modules this property needs are built alone into
    their own target directory: a module of another property that no longer compiles is that property's alarm, not this one's."""
    global HBIN
    with Lock("cargo"):
        lock_src = os.path.join(REPO, "Cargo.lock")
        lock_dst = os.path.join(HARNESS, "Cargo.lock")
        if os.path.exists(lock_src) and (not os.path.exists(lock_dst)):
            open(lock_dst, "w").write(open(lock_src).read())
        rc, out = sh(["cargo", "build", "--offline"], cwd=HARNESS)
        if rc == 0:
            return
        if prop is None:
            raise BuildError("harness-build", out[-6000:])
        hps = [getattr(mod, "HARNESS_PROP", prop) if mod else prop]
        if mod is not None:
            import importlib as _il
            for n in getattr(mod, "SUBMODULES", []):
                hps.append(getattr(_il.import_module("vlib.props." + n), "HARNESS_PROP", prop))
        feats = sorted(set(f for f in (FEATURE_OF.get(hp, hp.lower()) for hp in hps) if f))
        tdir = os.path.join(HARNESS, "target-prop")
        rc2, out2 = sh(["cargo", "build", "--offline", "--no-default-features", "--features", ",".join(feats), "--target-dir", tdir], cwd=HARNESS)
        if rc2 != 0:
            raise BuildError("harness-build", out2[-6000:])
        HBIN = os.path.join(tdir, "debug", "skim-verif-harness")


SK_TARGET = os.path.join(HARNESS, "target-sk")
SK_BIN = os.path.join(SK_TARGET, "debug", "sk")


def build_sk():
    """the real `sk` binary for the CLI-level streams, rebuilt from /repo's working tree.  Dev profile with debug
    assertions OFF (a plain debug build dies in clap's own debug assertions before reading input), overflow checks on,
    own target dir: ~10 s cold and a few seconds after a source change (the LTO release build takes 30-40 s)."""
    env = dict(ENV, CARGO_PROFILE_DEV_DEBUG_ASSERTIONS="false", CARGO_PROFILE_DEV_OPT_LEVEL="1", CARGO_PROFILE_DEV_DEBUG="0")
    with Lock("cargo-sk"):
        rc, out = sh(["cargo", "build", "--offline", "--bin", "sk", "--manifest-path", os.path.join(REPO, "Cargo.toml"),
                      "--target-dir", SK_TARGET], env=env)
    if rc != 0:
        raise BuildError("sk-build", out[-4000:])
    ENV["VERIF_SK_BIN"] = SK_BIN
    return SK_BIN


def run_lines(binary, lines, timeout=900, cwd=None):
    if not lines:
        return []
    try:
        p = subprocess.run([binary], input="\n".join(lines) + "\n", stdout=subprocess.PIPE, stderr=subprocess.PIPE,
                           text=True, errors="replace", timeout=timeout, env=ENV, cwd=cwd)
        out = p.stdout.split("\n")
        rc = p.returncode
    except subprocess.TimeoutExpired:
        out, rc = [], "timeout"
    if out and out[-1] == "":
        out.pop()
    if len(out) != len(lines):
        # the process died or hung (abort / stack overflow / deadlock): bisect so that one bad case does not hide the rest
        if len(lines) == 1:
            return ["hang" if rc == "timeout" else "crash:rc=%s" % rc]
        h = len(lines) // 2
        t2 = max(30, timeout // 2) if rc == "timeout" else timeout
        return run_lines(binary, lines[:h], t2, cwd) + run_lines(binary, lines[h:], t2, cwd)
    return out


def _harness_shard(args):
    prop, cases, timeout = args
    return run_lines(HBIN, ["%s\t%s" % (prop, c) for c in cases], timeout=timeout)


def evaluate(prop, cases, mod=None):
    """returns list of dict(case, impl, model, verdict)"""
    par = getattr(mod, "PARALLEL", 1) if mod else 1
    timeout = getattr(mod, "HARNESS_TIMEOUT", 900) if mod else 900
    hprop = getattr(mod, "HARNESS_PROP", prop) if mod else prop
    if mod is not None and hasattr(mod, "python_harness"):
        # the "harness" of this stream is python code driving the real binary; failing cases are re-run with
        # slower timing before they count (timing-dependent streams only)
        impl = mod.python_harness(cases, 0)
        for attempt in (1, 2):
            drv = run_lines(DRIVER, ["%s\t%s\t%s" % (hprop, c, i) for c, i in zip(cases, impl)])
            bad = [k for k, d in enumerate(drv) if not d.endswith("\tok")]
            if not bad:
                break
            redo = mod.python_harness([cases[k] for k in bad], attempt)
            for k, o in zip(bad, redo):
                impl[k] = o
    elif par > 1 and len(cases) > 1:
        from concurrent.futures import ThreadPoolExecutor
        k = min(par, len(cases))
        shards = [cases[i::k] for i in range(k)]
        with ThreadPoolExecutor(max_workers=k) as ex:
            outs = list(ex.map(_harness_shard, [(hprop, sh, timeout) for sh in shards]))
        impl = [None] * len(cases)
        for si, out in enumerate(outs):
            for j, o in enumerate(out):
                impl[si + j * k] = o
    else:
        impl = run_lines(HBIN, ["%s\t%s" % (hprop, c) for c in cases], timeout=timeout)
    raw = impl
    if mod is not None and hasattr(mod, "postprocess"):
        impl = [mod.postprocess(c, i) for c, i in zip(cases, impl)]
    drv = run_lines(DRIVER, ["%s\t%s\t%s" % (hprop, c, i) for c, i in zip(cases, impl)])
    res = []
    for c, i, d, rw in zip(cases, impl, drv, raw):
        parts = d.split("\t")
        model = parts[0]
        verdict = parts[1] if len(parts) > 1 else "error"
        r = dict(case=c, impl=i, model=model, verdict=verdict)
        if rw is not i:
            r["raw"] = rw
        res.append(r)
    return res


def failure_kind(r, strict_model=True):
    if r["verdict"].startswith("error") or r["model"].startswith("error"):
        return "driver-error"
    if r["impl"].startswith("error"):
        return "harness-error"
    if r["verdict"].startswith("mismatch"):
        return "model-mismatch"
    if r["verdict"] != "ok":
        return "spec-violation"
    if strict_model and r["impl"] != r["model"]:
        return "model-mismatch"
    return None


def default_shrink_candidates(case):
    """case = '<header>|<op op op>' : drop chunks of ops"""
    if "|" not in case:
        return []
    hd, ops = case.rsplit("|", 1)
    ops = [o for o in ops.split(" ") if o]
    out = []
    n = len(ops)
    size = max(n // 2, 1)
    while size >= 1:
        for i in range(0, n, size):
            cand = ops[:i] + ops[i + size:]
            if len(cand) < n:
                out.append(hd + "|" + " ".join(cand))
        if size == 1:
            break
        size //= 2
    return out


def shrink(prop, mod, r, kind, strict_model, budget=40):
    cur = r
    for _ in range(getattr(mod, 'SHRINK_ROUNDS', budget)):
        cands = (getattr(mod, "shrink_candidates", None) or default_shrink_candidates)(cur["case"])
        seen, uniq = set(), []
        for c in cands:
            if c not in seen and c != cur["case"]:
                seen.add(c)
                uniq.append(c)
        if not uniq:
            break
        rs = evaluate(prop, uniq[:getattr(mod, 'SHRINK_BATCH', 400)], mod)
        nxt = None
        for x in rs:
            if failure_kind(x, strict_model) == kind:
                nxt = x
                break
        if nxt is None:
            break
        cur = nxt
    return cur


def load_known():
    p = os.path.join(ROOT, "known_findings.json")
    if not os.path.exists(p):
        return []
    return json.load(open(p)).get("findings", [])


def repo_head():
    rc, out = sh(["git", "-C", REPO, "rev-parse", "HEAD"])
    rc2, st = sh(["git", "-C", REPO, "status", "--porcelain", "--untracked-files=no"])
    return out.strip() + ("+dirty" if st.strip() else "")


def write_replay(prop, seed, n, payload):
    os.makedirs(os.path.join(ROOT, "replay"), exist_ok=True)
    path = os.path.join(ROOT, "replay", "%s-%s-%s.json" % (prop, seed, n))
    payload = dict(payload, property=prop, seed=seed, repo_head=repo_head())
    json.dump(payload, open(path, "w"), indent=1, ensure_ascii=False)
    return path


def corpus_cases(prop):
    d = os.path.join(ROOT, "corpus", prop)
    out = []
    if os.path.isdir(d):
        for f in sorted(os.listdir(d)):
            for line in open(os.path.join(d, f)):
                line = line.rstrip("\n")
                if line and not line.startswith("#"):
                    out.append(line)
    return out


TRUSTED = [
    "Lean 4.33.0 kernel; axioms allowed: propext, Classical.choice, Quot.sound (audited with #print axioms on every run)",
    "no native_decide / bv_decide / sorry / user axioms (source grep on every run)",
    "correspondence harness (/verif/harness, calls the real code in-process) and this runner (/verif/vlib)",
    "Lean compiler for the executable side of the driver (same definitions the theorems are about)",
]


def run_property(mod, tier, seed, replay=None):
    import random
    t0 = time.time()
    prop = mod.ID
    strict_model = getattr(mod, "STRICT_MODEL", True)
    violations = []          # list of (replay_path, suffix)
    known_hits = {}
    notes = []
    thms, audited, checker = [], {}, ""
    proof_err = None
    try:
        thms = theorems_of(prop)
    except Exception:
        thms = []
    try:
        thms, audited, checker = lean_build(prop, thorough=(tier == "thorough"), extra=getattr(mod, "EXTRA_PROPS", ()), mod=mod)
    except BuildError as e:
        proof_err = e
    harness_err = None
    try:
        harness_build(prop, mod)
        import importlib as _il
        needs = getattr(mod, "NEEDS_SK", False) or any(
            getattr(_il.import_module("vlib.props." + n), "NEEDS_SK", False) for n in getattr(mod, "SUBMODULES", []))
        if needs == "thorough":
            needs = tier == "thorough"
        if needs:
            build_sk()
    except BuildError as e:
        harness_err = e

    if proof_err is not None and not os.path.exists(DRIVER):
        path = write_replay(prop, seed, "build", dict(kind="proof-broken", theorem_or_stream=proof_err.stage,
                                                      detail=proof_err.detail))
        print("VIOLATION property=%s replay=%s no-failing-input-found" % (prop, path))
        return finish(mod, tier, seed, t0, thms, audited, checker, [], 1, notes, {}, 0)
    if harness_err is not None:
        path = write_replay(prop, seed, "build", dict(kind="harness-build-broken", theorem_or_stream="cargo build of the correspondence harness against /repo",
                                                      detail=harness_err.detail))
        print("VIOLATION property=%s replay=%s no-failing-input-found" % (prop, path))
        return finish(mod, tier, seed, t0, thms, audited, checker, [], 1, notes, {}, 0)

    rng = random.Random(seed)
    import importlib
    subs = [importlib.import_module("vlib.props." + n) for n in getattr(mod, "SUBMODULES", [])]
    known = {k["id"]: k for k in load_known() if k["property"] == prop}
    state = dict(nviol=0, first_mismatch=None, reported=set(), nshrunk=0)
    results = []
    ncases = 0

    def explore(m, cases, stream):
        strict = getattr(m, "STRICT_MODEL", True)
        res = []
        B = 2000
        for i in range(0, len(cases), B):
            res.extend(evaluate(prop, cases[i:i + B], m))
        for idx, r in enumerate(res):
            kind = failure_kind(r, strict)
            if kind is None:
                continue
            if kind == "model-mismatch":
                if state["first_mismatch"] is None:
                    state["first_mismatch"] = (idx, r, m, stream)
                continue
            if len(state["reported"]) >= 3 or state["nshrunk"] >= 24:
                continue       # enough distinct reports / enough failing cases minimised (bounds a failing run)
            state["nshrunk"] += 1
            small = shrink(prop, m, r, kind, strict)
            fid = m.classify(small) if hasattr(m, "classify") else None
            if fid is not None and fid in known and known[fid]["status"] == "known":
                known_hits[fid] = small
                continue
            sig = fid or small["case"]
            if sig in state["reported"]:
                continue
            state["reported"].add(sig)
            state["nviol"] += 1
            path = write_replay(prop, seed, "%s%d" % (stream, idx), dict(
                kind=kind, stream=stream, case_index=idx, case=small["case"], original_case=r["case"],
                impl_output=small["impl"], model_output=small["model"],
                spec_verdict=small["verdict"], finding_class=fid, raw=small.get("raw")))
            violations.append((path, ""))
        return res

    if replay:
        rp = json.load(open(replay))
        cases = [rp["case"]] if "case" in rp else []
        stream = rp.get("stream", "")
        target = mod
        for sm in subs:
            if sm.__name__.rsplit(".", 1)[1] == stream:
                target = sm
        results = explore(target, cases, stream)
        ncases = len(cases)
    else:
        n = mod.N_QUICK if tier == "quick" else mod.N_THOROUGH
        if proof_err is not None or STALE:
            n *= 5   # intensified search: a proof obligation broke / a translator did not understand the source
        cases = corpus_cases(prop) + list(getattr(mod, "CORPUS", [])) + list(mod.gen(rng, tier, n))
        results = explore(mod, cases, "")
        ncases = len(cases)
        for sm in subs:
            sn = sm.N_QUICK if tier == "quick" else sm.N_THOROUGH
            if STALE:
                sn *= 3
            name = sm.__name__.rsplit(".", 1)[1]
            scases = corpus_cases(prop + "-" + name) + list(sm.gen(rng, tier, sn))
            results.extend(explore(sm, scases, name))
            ncases += len(scases)
    nviol = state["nviol"]
    if state["first_mismatch"] is not None and nviol == 0:
        idx, r, m, stream = state["first_mismatch"]
        small = shrink(prop, m, r, "model-mismatch", getattr(m, "STRICT_MODEL", True))
        nviol += 1
        path = write_replay(prop, seed, "%s%d" % (stream, idx), dict(
            kind="model-mismatch", stream=stream, case_index=idx, case=small["case"],
            impl_output=small["impl"], model_output=small["model"], spec_verdict=small["verdict"], raw=small.get("raw"),
            theorem_or_stream="correspondence stream %s%s (implementation and Lean model disagree; the executable spec accepts the implementation's answer)" % (prop, ("/" + stream) if stream else "")))
        violations.append((path, " no-failing-input-found"))
    if proof_err is not None and nviol == 0:
        nviol += 1
        path = write_replay(prop, seed, "proof", dict(kind="proof-broken" if proof_err.stage != "extractor" else "extractor-broken",
                                                      theorem_or_stream=proof_err.stage, detail=proof_err.detail))
        violations.append((path, " no-failing-input-found"))
    for name, f, why in STALE:
        msg = ("translator tools/extractors/%s did not understand the current source (%s): Generated/%s.lean is the table of the last tree it "
               "understood; this run tied the property by its correspondence streams alone, with five times the cases" % (f, why or "shape not recognised", name))
        notes.append(msg)
        print("NOTE: property=%s %s" % (prop, msg))
    for fid, small in known_hits.items():
        print("KNOWN-FINDING: property=%s %s [%s] case=%s" % (prop, known[fid]["what_fails"], fid, small["case"][:200]))
    for path, suffix in violations:
        print("VIOLATION property=%s replay=%s%s" % (prop, path, suffix))
    return finish(mod, tier, seed, t0, thms, audited, checker, results, nviol, notes, known_hits, ncases, subs)


def finish(mod, tier, seed, t0, thms, audited, checker, results, nviol, notes, known_hits, ncases, subs=()):
    prop = mod.ID
    cases = [r["case"] for r in results]
    nt = set()
    hist = {}
    def _nt(c):
        for m in [mod] + list(subs):
            try:
                if m.nontrivial(c):
                    return True
            except Exception:
                pass
        return False
    for c in cases:
        if _nt(c):
            nt.add(hashlib.sha1(c.encode()).hexdigest())
        if hasattr(mod, "histogram_keys"):
            try:
                for k in mod.histogram_keys(c):
                    hist[k] = hist.get(k, 0) + 1
            except Exception:
                hist["other-stream"] = hist.get("other-stream", 0) + 1
    outcome = {}
    for r in results:
        if r["impl"].startswith("panic"):
            k = "panic"
        elif r["impl"] == r["model"]:
            k = "agree"
        elif r["verdict"] == "ok":
            k = "spec-ok"
        else:
            k = "verdict:" + r["verdict"].split(":")[0]
        outcome[k] = outcome.get(k, 0) + 1
    samples = [dict(case=r["case"][:600], impl=r["impl"][:300], model=r["model"][:300], verdict=r["verdict"])
               for r in results[:1] + results[len(results) // 2: len(results) // 2 + 1] + results[-1:]]
    samples += [dict(theorem=t, axioms=audited.get(t, [])) for t in thms[:3]]
    ev = dict(
        property_id=prop, tier=tier, seed=seed, level="proof",
        coverage=dict(
            obligations=len(thms), discharged=len([t for t in thms if t in audited and set(audited[t]) <= ALLOWED_AXIOMS]),
            checker_cmd="cd /verif/lean && " + checker if checker else "lake build (failed)",
            trusted_base=TRUSTED + list(getattr(mod, "TRUSTED", [])),
            theorems=thms,
            evaluations=len(results), distinct_nontrivial=len(nt),
            rule=mod.RULE + "".join(" || sub-stream %s: %s" % (m.__name__.rsplit(".", 1)[1], m.RULE) for m in subs),
            traces_validated_against_impl=len(results),
            outcome=outcome, histogram=hist, samples=samples,
            known_findings_reproduced=sorted(known_hits.keys()),
        ),
        assumptions=list(getattr(mod, "ASSUMPTIONS", [])) + list(notes),
        wall_s=round(time.time() - t0, 2), violations=nviol)
    os.makedirs(os.path.join(ROOT, "evidence"), exist_ok=True)
    json.dump(ev, open(os.path.join(ROOT, "evidence", prop + ".json"), "w"), indent=1, ensure_ascii=False)
    print("%s tier=%s seed=%s theorems=%d/%d cases=%d nontrivial=%d violations=%d wall=%.1fs" % (
        prop, tier, seed, ev["coverage"]["discharged"], len(thms), len(results), len(nt), nviol, ev["wall_s"]))
    return 1 if nviol else 0
