//! C17: highlight ranges laid over coloured text — the real `merge_fragments`,
//! `AnsiString::override_attrs` + `iter`, `DefaultSkimItem::display`, `AnsiString::from(DisplayContext)`.
//! Attributes travel as tags: 0 = Attr::default(), t in 1..=255 = fg AnsiValue(t).
use crate::util::*;
use regex::Regex;
use skim::verif::{merge_fragments, DefaultSkimItem};
use skim::{AnsiString, DisplayContext, Matches, SkimItem};
use tuikit::attr::{Attr, Color, Effect};

type Frag = (Attr, (u32, u32));

fn attr_of(tag: u32) -> Attr {
    if tag == 0 {
        Attr::default()
    } else {
        Attr {
            fg: Color::AnsiValue(tag as u8),
            ..Attr::default()
        }
    }
}

fn tag_of(a: &Attr) -> u32 {
    if *a == Attr::default() {
        return 0;
    }
    match (a.fg, a.bg) {
        (Color::AnsiValue(v), Color::Default) if a.effect == Effect::empty() && v != 0 => v as u32,
        _ => 99999,
    }
}

fn parse_frags(s: &str) -> Option<Vec<Frag>> {
    if s == "_" || s.is_empty() {
        return Some(vec![]);
    }
    let mut out = vec![];
    for t in s.split(' ').filter(|t| !t.is_empty()) {
        let p: Vec<&str> = t.split(':').collect();
        if p.len() != 3 {
            return None;
        }
        let tag: u32 = p[0].parse().ok()?;
        if tag > 255 {
            return None;
        }
        out.push((attr_of(tag), (p[1].parse().ok()?, p[2].parse().ok()?)));
    }
    Some(out)
}

fn show_frags(fs: &[Frag]) -> String {
    if fs.is_empty() {
        return "_".into();
    }
    fs.iter()
        .map(|(a, (s, e))| format!("{}:{}:{}", tag_of(a), s, e))
        .collect::<Vec<_>>()
        .join(" ")
}

fn show_iter(s: &AnsiString) -> String {
    let mut text = String::new();
    let mut tags = vec![];
    for (c, a) in s.iter() {
        text.push(c);
        tags.push(tag_of(&a));
    }
    format!("{};{}", enc_str(&text), enc_nats(&tags))
}

enum M {
    None,
    Ci(Vec<usize>),
    Cr(usize, usize),
    Br(usize, usize),
}

fn parse_matches(s: &str) -> Option<M> {
    let p: Vec<&str> = s.split(':').collect();
    Some(match (p[0], p.len()) {
        ("none", 1) => M::None,
        ("ci", 2) => M::Ci(dec_nats(p[1])),
        ("cr", 3) => M::Cr(p[1].parse().ok()?, p[2].parse().ok()?),
        ("br", 3) => M::Br(p[1].parse().ok()?, p[2].parse().ok()?),
        _ => return None,
    })
}

/// one SGR sequence per colour change, the way coloured tool output looks
fn render(text: &str, tags: &[usize]) -> String {
    let mut out = String::new();
    let mut cur = 0usize;
    for (c, &t) in text.chars().zip(tags.iter()) {
        if t != cur {
            if t == 0 {
                out.push_str("\x1b[0m");
            } else {
                out.push_str(&format!("\x1b[38;5;{}m", t));
            }
            cur = t;
        }
        out.push(c);
    }
    if cur != 0 {
        out.push_str("\x1b[0m");
    }
    out
}

/// The real code runs in a forked worker process (one worker, many cases) with an address-space limit and a
/// per-case deadline: a change that makes the two-pointer loop spin (branch 4 advances neither index and pushes
/// on every turn) must become the answer `hang` / `crash`, not a check that never ends or eats the machine's
/// memory.  After the first hang the deadline drops, so a spinning build still finishes in bounded time.
mod guard {
    use std::os::raw::{c_int, c_void};
    use std::sync::Mutex;
    #[repr(C)]
    struct Rlimit {
        cur: u64,
        max: u64,
    }
    #[repr(C)]
    struct PollFd {
        fd: c_int,
        events: i16,
        revents: i16,
    }
    extern "C" {
        fn fork() -> c_int;
        fn pipe(fds: *mut c_int) -> c_int;
        fn read(fd: c_int, buf: *mut c_void, n: usize) -> isize;
        fn write(fd: c_int, buf: *const c_void, n: usize) -> isize;
        fn close(fd: c_int) -> c_int;
        fn poll(fds: *mut PollFd, n: u64, timeout: c_int) -> c_int;
        fn kill(pid: c_int, sig: c_int) -> c_int;
        fn waitpid(pid: c_int, status: *mut c_int, opts: c_int) -> c_int;
        fn _exit(code: c_int) -> !;
        fn setrlimit(res: c_int, r: *const Rlimit) -> c_int;
    }
    const RLIMIT_AS: c_int = 9;
    const POLLIN: i16 = 1;
    const MEM: u64 = 1 << 29;
    const FIRST_DEADLINE_MS: u128 = 3000;
    const LATER_DEADLINE_MS: u128 = 150;
    /// after this many hangs in one harness process the remaining cases are not run any more (the check has failed
    /// already and every further hang costs a deadline); they are answered with an explicit error, never guessed
    const MAX_HANGS: u32 = 20;

    struct Worker {
        pid: c_int,
        tx: c_int,
        rx: c_int,
    }
    struct State {
        worker: Option<Worker>,
        hangs: u32,
    }
    static STATE: Mutex<State> = Mutex::new(State { worker: None, hangs: 0 });

    unsafe fn write_all(fd: c_int, b: &[u8]) -> bool {
        let mut off = 0;
        while off < b.len() {
            let n = write(fd, b[off..].as_ptr() as *const c_void, b.len() - off);
            if n <= 0 {
                return false;
            }
            off += n as usize;
        }
        true
    }

    /// read one '\n'-terminated line; None = EOF/error; Err(()) = deadline passed
    unsafe fn read_line(fd: c_int, deadline_ms: Option<u128>) -> Result<Option<String>, ()> {
        let t0 = std::time::Instant::now();
        let mut out: Vec<u8> = Vec::new();
        let mut buf = [0u8; 1];
        let mut big = [0u8; 65536];
        loop {
            if let Some(d) = deadline_ms {
                let el = t0.elapsed().as_millis();
                if el >= d {
                    return Err(());
                }
                let mut p = PollFd { fd, events: POLLIN, revents: 0 };
                let r = poll(&mut p, 1, (d - el) as c_int);
                if r == 0 {
                    return Err(());
                }
                if r < 0 {
                    continue;
                }
                // the worker writes whole answers with one trailing newline and then waits: read what is there
                let n = read(fd, big.as_mut_ptr() as *mut c_void, big.len());
                if n <= 0 {
                    return Ok(None);
                }
                out.extend_from_slice(&big[..n as usize]);
                if out.last() == Some(&b'\n') {
                    out.pop();
                    return Ok(Some(String::from_utf8_lossy(&out).into_owned()));
                }
            } else {
                let n = read(fd, buf.as_mut_ptr() as *mut c_void, 1);
                if n <= 0 {
                    return Ok(None);
                }
                if buf[0] == b'\n' {
                    return Ok(Some(String::from_utf8_lossy(&out).into_owned()));
                }
                out.push(buf[0]);
            }
        }
    }

    unsafe fn spawn(f: fn(&str) -> String) -> Option<Worker> {
        let mut down = [0 as c_int; 2];
        let mut up = [0 as c_int; 2];
        if pipe(down.as_mut_ptr()) != 0 || pipe(up.as_mut_ptr()) != 0 {
            return None;
        }
        let pid = fork();
        if pid < 0 {
            return None;
        }
        if pid == 0 {
            close(down[1]);
            close(up[0]);
            let lim = Rlimit { cur: MEM, max: MEM };
            setrlimit(RLIMIT_AS, &lim);
            loop {
                let line = match read_line(down[0], None) {
                    Ok(Some(l)) => l,
                    _ => _exit(0),
                };
                let mut ans = match std::panic::catch_unwind(|| f(&line)) {
                    Ok(s) => s.replace('\n', " "),
                    Err(_) => "panic".to_string(),
                };
                ans.push('\n');
                if !write_all(up[1], ans.as_bytes()) {
                    _exit(0);
                }
            }
        }
        close(down[0]);
        close(up[1]);
        Some(Worker { pid, tx: down[1], rx: up[0] })
    }

    unsafe fn reap(w: Worker, kill_it: bool) {
        if kill_it {
            kill(w.pid, 9);
        }
        close(w.tx);
        close(w.rx);
        let mut st: c_int = 0;
        waitpid(w.pid, &mut st, 0);
    }

    pub fn call(case: &str, f: fn(&str) -> String) -> String {
        let mut st = STATE.lock().unwrap();
        if st.hangs >= MAX_HANGS {
            return "error:skipped-after-repeated-hangs".into();
        }
        unsafe {
            if st.worker.is_none() {
                st.worker = spawn(f);
            }
            let (tx, rx) = match &st.worker {
                Some(w) => (w.tx, w.rx),
                None => return "error:fork".into(),
            };
            let mut line = case.replace('\n', " ");
            line.push('\n');
            if !write_all(tx, line.as_bytes()) {
                let w = st.worker.take().unwrap();
                reap(w, true);
                return "crash".into();
            }
            let d = if st.hangs == 0 { FIRST_DEADLINE_MS } else { LATER_DEADLINE_MS };
            match read_line(rx, Some(d)) {
                Ok(Some(ans)) => ans,
                Ok(None) => {
                    // the worker died (e.g. allocation failure under the address-space limit): counts like a hang
                    let w = st.worker.take().unwrap();
                    reap(w, true);
                    st.hangs += 1;
                    "crash".into()
                }
                Err(()) => {
                    let w = st.worker.take().unwrap();
                    reap(w, true);
                    st.hangs += 1;
                    "hang".into()
                }
            }
        }
    }
}

pub fn run(case: &str) -> String {
    guard::call(case, run_inner)
}

fn run_inner(case: &str) -> String {
    let parts: Vec<&str> = case.split('|').collect();
    if parts.len() != 3 {
        return "error:bad-case".into();
    }
    let hd: Vec<&str> = parts[0].split(';').collect();
    match (hd[0], hd.len()) {
        ("M", 1) => {
            let (old, new) = match (parse_frags(parts[1]), parse_frags(parts[2])) {
                (Some(o), Some(n)) => (o, n),
                _ => return "error:bad-frags".into(),
            };
            show_frags(&merge_fragments(&old, &new))
        }
        ("O", 2) => {
            let (old, new) = match (parse_frags(parts[1]), parse_frags(parts[2])) {
                (Some(o), Some(n)) => (o, n),
                _ => return "error:bad-frags".into(),
            };
            let mut s = AnsiString::new_string(dec_str(hd[1]), old);
            s.override_attrs(new);
            show_iter(&s)
        }
        ("D", 3) | ("F", 3) => {
            let text = dec_str(hd[1]);
            let hl: u32 = match hd[2].parse() {
                Ok(h) if h <= 255 => h,
                _ => return "error:bad-header".into(),
            };
            let m = match parse_matches(parts[2]) {
                Some(m) => m,
                None => return "error:bad-header".into(),
            };
            let tags = if hd[0] == "D" {
                dec_nats(parts[1])
            } else {
                vec![0; text.chars().count()]
            };
            if tags.len() != text.chars().count() || tags.iter().any(|&t| t > 255) {
                return "error:bad-tags".into();
            }
            let is_d = hd[0] == "D";
            let r = std::panic::catch_unwind(move || {
                let matches = match &m {
                    M::None => Matches::None,
                    M::Ci(v) => Matches::CharIndices(v),
                    M::Cr(s, e) => Matches::CharRange(*s, *e),
                    M::Br(s, e) => Matches::ByteRange(*s, *e),
                };
                if is_d {
                    let item = DefaultSkimItem::new(render(&text, &tags), true, &[], &[], &Regex::new("").unwrap());
                    let shown = item.text().to_string();
                    if shown != text {
                        return format!("error:ansi-text-differs:{}", enc_str(&shown));
                    }
                    let ctx = DisplayContext {
                        text: &shown,
                        score: 0,
                        matches,
                        container_width: 80,
                        highlight_attr: attr_of(hl),
                    };
                    let s = item.display(ctx);
                    show_iter(&s)
                } else {
                    let ctx = DisplayContext {
                        text: &text,
                        score: 0,
                        matches,
                        container_width: 80,
                        highlight_attr: attr_of(hl),
                    };
                    let s = AnsiString::from(ctx);
                    show_iter(&s)
                }
            });
            match r {
                Ok(s) => s,
                Err(_) => "panic".into(),
            }
        }
        _ => "error:bad-case".into(),
    }
}
