//! C09: drive the real `Selection` (cursor arithmetic of src/selection.rs) through
//! `EventHandler::handle`, `append_sorted_items`, `clear` and `Draw::draw` on a recording canvas.
//!
//! case  = `<reverse 0|1>|<op> <op> ...`
//! ops   = u:K d:K pu:K pd:K hu:K hd:K (K: i32)   r:N (click on screen row N)   a:N (append N items)
//!         c (clear)   w:H (draw on a canvas of height H, width 16)
//! answer= one token for the initial state and one per op, separated by blanks:
//!         `ic,lc,h,n,idx,cur`            (cur = text of get_current_item(), `x` when None)
//!         `ic,lc,h,n,idx,cur;<screen>`   after a draw; screen = rows top to bottom joined by `/`,
//!                                        a row is `.` (blank) or `>`/`_` (pointer or not) + item text
//!         a panic inside an op ends the answer with `panic:<message>`
//! The k-th appended item of a list generation has text k and rank [k,0,0,0], so the text of an
//! item is its index in the list.  After every op `get_selected_indices_and_items()` (accept) and a
//! double toggle are executed as probes: they panic ("failed to get item") when the cursor is
//! outside a non-empty list.
use crate::canvas::RecCanvas;
use skim::prelude::*;
use skim::verif::{Event, EventHandler, MatchedItem, Selection};
use std::panic::{catch_unwind, AssertUnwindSafe};
use std::sync::Arc;
use tuikit::prelude::Draw;

const WIDTH: usize = 16;

enum Op {
    Ev(Event),
    Append(usize),
    Clear,
    Draw(usize),
}

fn parse_op(t: &str) -> Option<Op> {
    let mut it = t.split(':');
    let name = it.next()?;
    let arg = it.next();
    if it.next().is_some() {
        return None;
    }
    let int = |a: Option<&str>| -> Option<i32> { a?.parse::<i32>().ok() };
    let nat = |a: Option<&str>| -> Option<usize> { a?.parse::<usize>().ok() };
    Some(match name {
        "u" => Op::Ev(Event::EvActUp(int(arg)?)),
        "d" => Op::Ev(Event::EvActDown(int(arg)?)),
        "pu" => Op::Ev(Event::EvActPageUp(int(arg)?)),
        "pd" => Op::Ev(Event::EvActPageDown(int(arg)?)),
        "hu" => Op::Ev(Event::EvActHalfPageUp(int(arg)?)),
        "hd" => Op::Ev(Event::EvActHalfPageDown(int(arg)?)),
        "r" => Op::Ev(Event::EvActSelectRow(nat(arg)?)),
        "a" => Op::Append(nat(arg)?),
        "c" => {
            if arg.is_some() {
                return None;
            }
            Op::Clear
        }
        "w" => Op::Draw(nat(arg)?),
        _ => return None,
    })
}

fn obs(sel: &Selection) -> String {
    let (ic, lc, h) = sel.verif_cursor();
    let cur = match sel.get_current_item() {
        Some(it) => it.text().to_string(),
        None => "x".to_string(),
    };
    format!("{},{},{},{},{},{}", ic, lc, h, sel.get_num_options(), sel.get_current_item_idx(), cur)
}

fn screen(c: &RecCanvas) -> String {
    let mut rows = Vec::new();
    for r in 0..c.height {
        let p = c.ch(r, 0);
        let text = c.row_text(r, 2);
        if p == ' ' && text.is_empty() {
            rows.push(".".to_string());
        } else {
            // anything but '>' or ' ' in the pointer column is shown as is (and will not match)
            let mark = match p {
                '>' => ">".to_string(),
                ' ' => "_".to_string(),
                o => format!("?{}", o as u32),
            };
            rows.push(format!("{}{}", mark, text.replace(' ', "~")));
        }
    }
    if rows.is_empty() {
        "-".to_string()
    } else {
        rows.join("/")
    }
}

fn probes(sel: &mut Selection) {
    // accept path
    let (idx, items) = sel.get_selected_indices_and_items();
    assert_eq!(idx.len(), items.len());
    // toggle path (multi is on): toggling twice restores the selected set
    let _ = sel.handle(&Event::EvActToggle);
    let _ = sel.handle(&Event::EvActToggle);
}

pub fn run(case: &str) -> String {
    let parts: Vec<&str> = case.split('|').collect();
    if parts.len() != 2 || !(parts[0] == "0" || parts[0] == "1") {
        return "error:bad-case".into();
    }
    let mut ops = Vec::new();
    for t in parts[1].split(' ').filter(|t| !t.is_empty()) {
        match parse_op(t) {
            Some(o) => ops.push(o),
            None => return "error:bad-op".into(),
        }
    }
    let mut options = SkimOptionsBuilder::default().build().unwrap();
    options.multi = true;
    if parts[0] == "1" {
        options.layout = "reverse";
    }
    let mut sel = Selection::with_options(&options);
    let mut out = vec![obs(&sel)];
    for op in ops {
        let r = catch_unwind(AssertUnwindSafe(|| {
            let mut extra = String::new();
            match &op {
                Op::Ev(ev) => {
                    let _ = sel.handle(ev);
                }
                Op::Append(k) => {
                    let base = sel.get_num_options();
                    let items: Vec<MatchedItem> = (0..*k)
                        .map(|j| {
                            let pos = base + j;
                            MatchedItem {
                                item: Arc::new(pos.to_string()),
                                rank: [pos as i32, 0, 0, 0],
                                matched_range: None,
                                item_idx: pos as u32,
                            }
                        })
                        .collect();
                    sel.append_sorted_items(items);
                }
                Op::Clear => sel.clear(),
                Op::Draw(h) => {
                    let mut c = RecCanvas::new(WIDTH, *h);
                    match sel.draw(&mut c) {
                        Ok(()) => extra = format!(";{}", screen(&c)),
                        Err(e) => extra = format!(";draw-error:{}", e.to_string().replace(' ', "_")),
                    }
                }
            }
            format!("{}{}", obs(&sel), extra)
        }));
        // the state after the op is reported even when a probe panics afterwards
        let r = match r {
            Ok(tok) => {
                out.push(tok);
                catch_unwind(AssertUnwindSafe(|| probes(&mut sel)))
            }
            Err(e) => Err(e),
        };
        if let Err(e) = r {
            let msg = if let Some(s) = e.downcast_ref::<String>() {
                s.clone()
            } else if let Some(s) = e.downcast_ref::<&str>() {
                s.to_string()
            } else {
                "?".to_string()
            };
            out.push(format!("panic:{}", msg.replace(|c: char| c == ' ' || c == '\t' || c == '\n', "_")));
            break;
        }
    }
    out.join(" ")
}
