//! C18: drive the real `Query` through `EventHandler::handle`.
use crate::util::*;
use skim::prelude::*;
use skim::verif::{Event, EventHandler, Query};
use tuikit::key::Key;

fn parse_action(t: &str) -> Option<Event> {
    let mut it = t.split(':');
    let name = it.next()?;
    Some(match name {
        "add" => Event::EvActAddChar(std::char::from_u32(it.next()?.parse().ok()?)?),
        "del" => Event::EvActDeleteChar,
        "bch" => Event::EvActBackwardChar,
        "bdel" => Event::EvActBackwardDeleteChar,
        "bkw" => Event::EvActBackwardKillWord,
        "bw" => Event::EvActBackwardWord,
        "bol" => Event::EvActBeginningOfLine,
        "eol" => Event::EvActEndOfLine,
        "fch" => Event::EvActForwardChar,
        "fw" => Event::EvActForwardWord,
        "kl" => Event::EvActKillLine,
        "kw" => Event::EvActKillWord,
        "ph" => Event::EvActPreviousHistory,
        "nh" => Event::EvActNextHistory,
        "uld" => Event::EvActUnixLineDiscard,
        "uwr" => Event::EvActUnixWordRubout,
        "yank" => Event::EvActYank,
        "ti" => Event::EvActToggleInteractive,
        "ps" => Event::EvInputKey(Key::BracketedPasteStart),
        "pe" => Event::EvInputKey(Key::BracketedPasteEnd),
        _ => return None,
    })
}

fn obs(q: &Query) -> String {
    let (fc, cc) = q.verif_cursors();
    format!(
        "{}:{}:{}:{}:{}",
        enc_str(&q.get_fz_query()),
        fc,
        enc_str(&q.get_cmd_query()),
        cc,
        if q.in_query_mode() { "q" } else { "c" }
    )
}

pub fn run(case: &str) -> String {
    let parts: Vec<&str> = case.split('|').collect();
    if parts.len() != 2 {
        return "error:bad-case".into();
    }
    let hd: Vec<&str> = parts[0].split(';').collect();
    if hd.len() != 5 {
        return "error:bad-case".into();
    }
    let fz = dec_str(hd[0]);
    let cmd = dec_str(hd[1]);
    let fh = dec_list(hd[2]);
    let ch = dec_list(hd[3]);
    let mut options = SkimOptionsBuilder::default().build().unwrap();
    options.query = Some(&fz);
    options.cmd_query = Some(&cmd);
    options.query_history = &fh;
    options.cmd_history = &ch;
    options.interactive = hd[4] == "1";
    let mut q = Query::from_options(&options);
    let mut out = vec![obs(&q)];
    for t in parts[1].split(' ').filter(|t| !t.is_empty()) {
        match parse_action(t) {
            Some(ev) => {
                let _ = q.handle(&ev);
                out.push(obs(&q));
            }
            None => return "error:bad-op".into(),
        }
    }
    out.join(" ")
}
