//! C07: the real `inject_command` on a generated (template, context); the real `get_string_by_range`
//! for the field table; optionally the real /bin/sh reading the expansion back.
//! stream 2: the interactive command (`Query::get_cmd`).
//! stream 3: like stream 1, but the words come from the real call site `Previewer::on_item_change` + `$SHELL -c`.
//! case : `<stream>;<delim>;<curIdx>;<cur>;<idxs>;<sels>;<query>;<cmdq>;<ranges>|<template>`
//! out  : `<output>;<field table>;<sh words>`   (formats: lean/SkimModel/Driver/C07.lean)
use crate::util::*;
use regex::Regex;
use skim::field::get_string_by_range;
use skim::prelude::SkimOptionsBuilder;
use skim::verif::{inject_command, InjectContext, Previewer, Query};
use skim::SkimItem;
use std::process::{Command, Stdio};
use std::sync::atomic::{AtomicUsize, Ordering};
use std::sync::mpsc::channel;
use std::sync::{Arc, Mutex};
use std::time::Duration;

fn enc_list(v: &[String]) -> String {
    if v.is_empty() {
        return "_".to_string();
    }
    v.iter().map(|s| enc_str(s)).collect::<Vec<_>>().join(",")
}

/// `/bin/sh -c "printf '%s\0' S <expanded>"` in an empty scratch directory; the words after the sentinel.
/// Callers only pass expansions of templates whose literal text is harmless and values with benign payloads.
fn sh_words(expanded: &str) -> String {
    let dir = std::env::temp_dir().join("skim-verif-c07-empty");
    let _ = std::fs::create_dir_all(&dir);
    let script = format!("printf '%s\\0' S {}", expanded);
    let r = Command::new("/bin/sh")
        .arg("-c")
        .arg(&script)
        .current_dir(&dir)
        .env_clear()
        .env("PATH", "/nonexistent")
        .stdin(Stdio::null())
        .stderr(Stdio::null())
        .output();
    match r {
        Err(e) => format!("e:spawn-{:?}", e.kind()),
        Ok(o) => {
            if !o.status.success() {
                return format!("e:status-{}", o.status.code().unwrap_or(-1));
            }
            words_of_nul_output(&o.stdout)
        }
    }
}

fn words_of_nul_output(bytes: &[u8]) -> String {
    let mut parts: Vec<&[u8]> = bytes.split(|b| *b == 0).collect();
    if parts.last().map(|p| p.is_empty()).unwrap_or(false) {
        parts.pop();
    } else {
        return "e:output-not-nul-terminated".into();
    }
    if parts.is_empty() || parts[0] != b"S" {
        return "e:no-sentinel".into();
    }
    let ws: Vec<String> = parts[1..].iter().map(|p| String::from_utf8_lossy(p).to_string()).collect();
    format!("w:{}", enc_list(&ws))
}

static PV_COUNTER: AtomicUsize = AtomicUsize::new(0);

/// Stream 3: the same template goes through the REAL call site `Previewer::on_item_change` (which builds the
/// InjectContext from the item, the queries and the selection, calls inject_command and hands the command to
/// `$SHELL -c`); the command writes its own argument vector, NUL separated, to a scratch file.
#[allow(clippy::too_many_arguments)]
fn previewer_words(
    template: &str,
    delimiter: Regex,
    current_index: usize,
    cur: &str,
    indices: &[usize],
    sels: &[String],
    query: &str,
    cmd_query: &str,
) -> String {
    std::env::set_var("SHELL", "/bin/sh");
    let dir = std::env::temp_dir().join("skim-verif-c07-pv");
    let _ = std::fs::create_dir_all(&dir);
    let n = PV_COUNTER.fetch_add(1, Ordering::SeqCst);
    let path = dir.join(format!("{}-{}.bin", std::process::id(), n));
    let _ = std::fs::remove_file(&path);
    let cmd = format!("printf '%s\\0' S {} >{}", template, path.display());
    let (tx, rx) = channel::<()>();
    let tx = Mutex::new(tx);
    let mut pv = Previewer::new(Some(cmd), move || {
        let _ = tx.lock().map(|t| t.send(()));
    })
    .delimiter(delimiter);
    let item: Arc<dyn SkimItem> = Arc::new(cur.to_string());
    let sel_items: Vec<Arc<dyn SkimItem>> = sels.iter().map(|s| Arc::new(s.clone()) as Arc<dyn SkimItem>).collect();
    let idx: Vec<usize> = indices.to_vec();
    pv.on_item_change(
        current_index,
        Some(item),
        Some(query.to_string()),
        Some(cmd_query.to_string()),
        sel_items.len(),
        move || (idx.clone(), sel_items.clone()),
        true,
    );
    let got = rx.recv_timeout(Duration::from_secs(10));
    drop(pv);
    if got.is_err() {
        return "e:preview-timeout".into();
    }
    let r = match std::fs::read(&path) {
        Ok(b) => words_of_nul_output(&b),
        Err(_) => "e:no-output-file".into(),
    };
    let _ = std::fs::remove_file(&path);
    r
}

pub fn run(case: &str) -> String {
    let parts: Vec<&str> = case.split('|').collect();
    if parts.len() != 2 {
        return "error:bad-case".into();
    }
    let hd: Vec<&str> = parts[0].split(';').collect();
    if hd.len() != 9 {
        return "error:bad-case".into();
    }
    if hd[0] == "2" {
        // interactive command: the real Query built from options, `get_cmd()` is what the reader runs
        let base = dec_str(parts[1]);
        let arg = dec_str(hd[7]);
        let mut options = SkimOptionsBuilder::default().build().unwrap();
        options.cmd = Some(&base);
        options.cmd_query = Some(&arg);
        options.interactive = true;
        let q = Query::from_options(&options);
        return format!("{};_;-", enc_str(&q.get_cmd()));
    }
    let sh_on = hd[0] == "1";
    let delimiter = match Regex::new(&dec_str(hd[1])) {
        Ok(r) => r,
        Err(_) => return "error:bad-delimiter".into(),
    };
    let current_index: usize = match hd[2].parse() {
        Ok(n) => n,
        Err(_) => return "error:bad-index".into(),
    };
    let cur = dec_str(hd[3]);
    let indices = dec_nats(hd[4]);
    let sels = dec_list(hd[5]);
    let query = dec_str(hd[6]);
    let cmd_query = dec_str(hd[7]);
    let ranges = dec_list(hd[8]);
    let template = dec_str(parts[1]);

    let sel_refs: Vec<&str> = sels.iter().map(|s| s.as_str()).collect();
    let context = InjectContext {
        delimiter: &delimiter,
        current_index,
        current_selection: &cur,
        indices: &indices,
        selections: &sel_refs,
        query: &query,
        cmd_query: &cmd_query,
    };
    let out = inject_command(&template, context).to_string();

    let mut rows = Vec::new();
    for item in std::iter::once(&cur).chain(sels.iter()) {
        if ranges.is_empty() {
            rows.push("_".to_string());
        } else {
            let cells: Vec<String> = ranges
                .iter()
                .map(|r| match get_string_by_range(&delimiter, item, r) {
                    None => "n".to_string(),
                    Some(s) => format!("s{}", enc_str(s)),
                })
                .collect();
            rows.push(cells.join(","));
        }
    }
    let sh = if hd[0] == "3" {
        previewer_words(&template, delimiter.clone(), current_index, &cur, &indices, &sels, &query, &cmd_query)
    } else if sh_on {
        sh_words(&out)
    } else {
        "-".to_string()
    };
    format!("{};{};{}", enc_str(&out), rows.join("/"), sh)
}
