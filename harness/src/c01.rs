//! C01 / C14 / C10 (session part) / C05: run a headless session, return the ordered trace of shared-memory
//! steps, the session output and the per-query match table (verdicts of the real engines per item).
use crate::session::*;
use crate::util::*;
use skim::prelude::*;
use std::collections::BTreeSet;

fn verdicts(query: &str, regex: bool, items: &[String]) -> Vec<usize> {
    let engine: Box<dyn MatchEngine> = if regex {
        RegexEngineFactory::builder().build().create_engine_with_case(query, CaseMatching::default())
    } else {
        AndOrEngineFactory::new(ExactOrFuzzyEngineFactory::builder().exact_mode(false).build())
            .create_engine_with_case(query, CaseMatching::default())
    };
    items
        .iter()
        .enumerate()
        .filter(|(_, t)| engine.match_item(Arc::new(item_text(t))).is_some())
        .map(|(i, _)| i)
        .collect()
}

pub fn run(case: &str) -> String {
    let parts: Vec<&str> = case.split('|').collect();
    if parts.len() != 6 || parts[0] != "S" {
        return "error:bad-case".into();
    }
    let r = run_session(parts[1], parts[2], parts[3], parts[4]);
    // every (query, mode) that was current at the end of some loop iteration, plus the initial one
    let mut qs: BTreeSet<(String, bool)> = BTreeSet::new();
    let init_q = parts[1]
        .split(',')
        .find(|o| o.starts_with("q="))
        .map(|o| dec_str(&o[2..]))
        .unwrap_or_default();
    let init_re = parts[1].split(',').any(|o| o == "regex");
    qs.insert((init_q, init_re));
    for l in &r.trace {
        if let Some(rest) = l.strip_prefix("loop.end ") {
            let re = rest.contains(" re=true ");
            if let Some(i) = rest.find(" q=\"") {
                let q = &rest[i + 4..rest.len() - 1];
                // Debug-escaped; the generators only use characters that Debug prints verbatim
                qs.insert((q.to_string(), re));
            }
        }
    }
    let cmds = parse_cmds(parts[2]);
    let mut table = vec![];
    for (q, re) in &qs {
        let mut per_cmd = vec![];
        let mut names: Vec<&String> = cmds.keys().collect();
        names.sort();
        for name in names {
            let items: Vec<String> = cmds[name].iter().flat_map(|(_, v)| v.iter().cloned()).collect();
            per_cmd.push(format!("{}:{}", name, enc_nats(&verdicts(q, *re, &items))));
        }
        table.push(format!("{}/{}={}", enc_str(q), if *re { 1 } else { 0 }, per_cmd.join("+")));
    }
    let trace: Vec<String> = r.trace.iter().map(|l| l.replace(';', ",").replace('|', "!").replace('\t', " ")).collect();
    format!("trace={}|out={}|M={}|timeouts={}", trace.join(";"), r.output, table.join("&"), r.timeouts)
}
