//! Headless sessions: the real `Model` on a held (never started) tuikit `Term`, items fed by a scripted
//! command collector, events injected on the model's own channel.  Used by C01, C14, C10 (session part), C05.
//!
//! case:  S|<opts>|<cmds>|<events>|<rules>
//!   opts    comma list: multi select1 exit0 sync hl=<n> interactive tac nosort nce regex q=<enc> expect=<keys>
//!   cmds    `;`-separated  <name>=<chunk>/<chunk>/...   chunk = <pause_us>@<enc>,<enc>,...   (name: c0, c1, ...)
//!           the initial command is c0; in interactive mode the command is "c" ++ command-query
//!   events  space separated: add:<cp> bs rot ti refresh up:<k> down:<k> toggle togall selall desel
//!           wait:<us> idle hb accept[:<enc>] abort
//!   rules   `&`-separated schedule rules (see skim::verif::sched::add_rule_str), or `-`
use crate::util::*;
use crossbeam::channel::{bounded, Sender};
use skim::prelude::*;
use skim::verif::sched;
use skim::verif::{CommandCollector, Event, Model, Reader};
use std::collections::HashMap;
use std::sync::atomic::AtomicUsize;
use std::sync::mpsc::channel;
use std::thread;
use std::time::{Duration, Instant};
use tuikit::prelude::{Term, TermOptions};

type Chunks = Vec<(u64, Vec<String>)>;

type Supplied = Arc<std::sync::Mutex<Vec<Arc<dyn SkimItem>>>>;

/// a scripted item; a script text starting with `~` stands for a BLANK line (the text the engines see is empty) that still has
/// an identity: `output()` is the script text, which names command and position
pub struct SItem {
    text: String,
    out: String,
}

pub fn item_text(script: &str) -> String {
    if script.starts_with('~') {
        String::new()
    } else {
        script.to_string()
    }
}

impl SkimItem for SItem {
    fn text(&self) -> Cow<str> {
        Cow::Borrowed(&self.text)
    }
    fn output(&self) -> Cow<str> {
        Cow::Borrowed(&self.out)
    }
}

struct Feeder {
    cmds: HashMap<String, Chunks>,
    supplied: Supplied,
}

impl CommandCollector for Feeder {
    fn invoke(&mut self, cmd: &str, _components_to_stop: Arc<AtomicUsize>) -> (SkimItemReceiver, Sender<i32>) {
        let chunks = self.cmds.get(cmd).cloned().unwrap_or_default();
        let (tx_item, rx_item): (SkimItemSender, SkimItemReceiver) = bounded(4096);
        let (tx_int, rx_int) = bounded::<i32>(16);
        sched::log(format!("feeder.start {}", cmd));
        // nothing is delivered before the loop iteration that started this reader has ended, so that the
        // recorded trace linearises exactly (see vlib/props/session.py)
        let c0 = sched::count("loop.iter_end");
        let supplied = self.supplied.clone();
        thread::spawn(move || {
            let t0 = Instant::now();
            while sched::count("loop.iter_end") <= c0 && t0.elapsed() < Duration::from_millis(200) {
                thread::sleep(Duration::from_micros(100));
            }
            for (pause, items) in chunks {
                if pause > 0 {
                    if rx_int.recv_timeout(Duration::from_micros(pause)).is_ok() {
                        return;
                    }
                } else if rx_int.try_recv().is_ok() {
                    return;
                }
                for it in items {
                    let arc: Arc<dyn SkimItem> = Arc::new(SItem { text: item_text(&it), out: it });
                    supplied.lock().unwrap().push(arc.clone());
                    if tx_item.send(arc).is_err() {
                        return;
                    }
                }
            }
            // dropping tx_item closes the source
        });
        (rx_item, tx_int)
    }
}

/// how many waits of this process have timed out so far
static TIMED_OUT: std::sync::atomic::AtomicU64 = std::sync::atomic::AtomicU64::new(0);

/// how long a session is given to settle: generous (loaded machines), but once two sessions of this process have failed to
/// settle there is a violation to report already and the remaining sessions get a short limit (a change that makes sessions
/// hang would otherwise cost 40 s per session)
fn patience() -> u64 {
    if TIMED_OUT.load(std::sync::atomic::Ordering::SeqCst) >= 2 {
        3000
    } else {
        20000
    }
}

fn wait_settle<F: Fn() -> bool>(f: F) -> bool {
    let ok = wait_until(f, patience());
    if !ok {
        TIMED_OUT.fetch_add(1, std::sync::atomic::Ordering::SeqCst);
    }
    ok
}

fn wait_until<F: Fn() -> bool>(f: F, timeout_ms: u64) -> bool {
    let deadline = Instant::now() + Duration::from_millis(timeout_ms);
    while Instant::now() < deadline {
        if f() {
            return true;
        }
        thread::sleep(Duration::from_micros(300));
    }
    f()
}

pub struct SessionResult {
    pub trace: Vec<String>,
    pub output: String,
    pub timeouts: u64,
}

pub fn parse_cmds(s: &str) -> HashMap<String, Chunks> {
    let mut cmds = HashMap::new();
    for c in s.split(';').filter(|c| !c.is_empty()) {
        let mut kv = c.splitn(2, '=');
        let name = kv.next().unwrap_or("").to_string();
        let mut chunks = vec![];
        for ch in kv.next().unwrap_or("").split('/').filter(|c| !c.is_empty()) {
            let mut pa = ch.splitn(2, '@');
            let pause: u64 = pa.next().unwrap_or("0").parse().unwrap_or(0);
            let items: Vec<String> = pa
                .next()
                .unwrap_or("")
                .split(',')
                .filter(|t| !t.is_empty())
                .map(dec_str)
                .collect();
            chunks.push((pause, items));
        }
        cmds.insert(name, chunks);
    }
    cmds
}

pub fn run_session(opts: &str, cmds: &str, events: &str, rules: &str) -> SessionResult {
    sched::reset();
    sched::set_tracing(true);
    for r in rules.split('&').filter(|r| !r.is_empty() && *r != "-") {
        sched::add_rule_str(r);
    }
    let cmds = parse_cmds(cmds);

    let opts: Vec<String> = opts.split(',').map(|s| s.to_string()).collect();
    let has = |k: &str| opts.iter().any(|o| o == k);
    let val = |k: &str| {
        opts.iter()
            .find(|o| o.starts_with(&format!("{}=", k)))
            .map(|o| o[k.len() + 1..].to_string())
    };
    let query = val("q").map(|q| dec_str(&q));
    let expect = val("expect");
    let interactive = has("interactive");

    let (tx, rx) = channel();
    let tx_model = tx.clone();
    let (tx_out, rx_out) = channel::<String>();
    let opts_c = opts.clone();
    // set by the model thread as soon as `Model::start` has returned (select-1 / exit-0 end a session by themselves)
    let ended = Arc::new(std::sync::atomic::AtomicBool::new(false));
    let ended_c = ended.clone();
    let model_thread = thread::spawn(move || {
        let has = |k: &str| opts_c.iter().any(|o| o == k);
        let val = |k: &str| {
            opts_c
                .iter()
                .find(|o| o.starts_with(&format!("{}=", k)))
                .map(|o| o[k.len() + 1..].to_string())
        };
        let supplied: Supplied = Arc::new(std::sync::Mutex::new(Vec::new()));
        let feeder = Rc::new(RefCell::new(Feeder { cmds, supplied: supplied.clone() }));
        let mut options = SkimOptionsBuilder::default().build().unwrap();
        options.multi = has("multi");
        options.select1 = has("select1");
        options.exit0 = has("exit0");
        options.sync = has("sync");
        options.tac = has("tac");
        options.nosort = has("nosort");
        options.regex = has("regex");
        options.no_clear_if_empty = has("nce");
        options.header_lines = val("hl").and_then(|v| v.parse().ok()).unwrap_or(0);
        options.interactive = interactive;
        // a preview pane (the command is a cheap real shell command; what is observed is which item the last request was for)
        if has("pv") {
            options.preview = Some("echo {}");
        }
        // `fixcmd`: an interactive command template WITHOUT the replace string — the command never changes, whatever is typed
        options.cmd = Some(if interactive && !has("fixcmd") { "c{}" } else { "c0" });
        if interactive {
            options.cmd_query = Some("0");
        }
        let q = query.clone();
        options.query = q.as_deref();
        // --history / --cmd-history entries (oldest first), `+`-separated
        let hist = |k: &str| -> Vec<String> {
            val(k).map(|v| v.split('+').map(dec_str).collect()).unwrap_or_default()
        };
        let (qh, ch) = (hist("hist"), hist("chist"));
        options.query_history = &qh;
        options.cmd_history = &ch;
        options.expect = expect.clone();
        options.cmd_collector = feeder;
        let term = Arc::new(Term::with_options(TermOptions::default().hold(true)).unwrap());
        let reader = Reader::with_options(&options).source(None);
        let mut model = Model::new(rx, tx_model, reader, term, &options);
        let out = model.start();
        ended_c.store(true, std::sync::atomic::Ordering::SeqCst);
        let s = match out {
            None => "none".to_string(),
            Some(o) => format!(
                "abort={} event={} key={} query={} cmd={} items={} ptr={}",
                o.is_abort,
                format!("{:?}", o.final_event).replace(' ', "_"),
                format!("{:?}", o.final_key).replace(' ', "_"),
                enc_str(&o.query),
                enc_str(&o.cmd),
                {
                    let v: Vec<String> = o.selected_items.iter().map(|i| enc_str(&i.output())).collect();
                    if v.is_empty() {
                        "_".to_string()
                    } else {
                        v.join(",")
                    }
                },
                {
                    // is every returned item the very object that was supplied?
                    let sup = supplied.lock().unwrap();
                    let v: Vec<String> = o
                        .selected_items
                        .iter()
                        .map(|i| if sup.iter().any(|s| Arc::ptr_eq(s, i)) { "1".to_string() } else { "0".to_string() })
                        .collect();
                    if v.is_empty() {
                        "_".to_string()
                    } else {
                        v.join(",")
                    }
                }
            ),
        };
        let _ = tx_out.send(s);
    });

    let mut sent_user: u64 = 0;
    let send = |ev: Event, sent_user: &mut u64| {
        if ev != Event::EvHeartBeat {
            *sent_user += 1;
        }
        sched::log(format!("user {:?}", ev));
        let _ = tx.send((Key::Null, ev));
    };
    let is_ended = || ended.load(std::sync::atomic::Ordering::SeqCst);
    let wait_idle = |sent_user: u64| -> bool {
        // all user events handled, then one more heart beat must find the system idle
        // (a session that has ended by itself is not waited for)
        let ok1 = wait_settle(|| is_ended() || sched::count("loop.user") >= sent_user);
        if is_ended() {
            return true;
        }
        let c = sched::count("loop.quiet");
        sched::log("user EvHeartBeat".to_string());
        let _ = tx.send((Key::Null, Event::EvHeartBeat));
        let ok2 = wait_settle(|| is_ended() || sched::count("loop.quiet") > c);
        ok1 && ok2
    };
    let mut finished = false;
    let mut idle_failed = false;
    let mut result: Option<String> = None;
    for t in events.split(' ').filter(|t| !t.is_empty()) {
        if let Ok(s) = rx_out.try_recv() {
            result = Some(s);
            finished = true;
            break;
        }
        let mut it = t.splitn(2, ':');
        let name = it.next().unwrap_or("");
        let arg = it.next();
        match name {
            "add" => {
                let c = arg.and_then(|a| a.parse::<u32>().ok()).and_then(std::char::from_u32).unwrap_or('a');
                send(Event::EvActAddChar(c), &mut sent_user)
            }
            "bs" => send(Event::EvActBackwardDeleteChar, &mut sent_user),
            "prevh" => send(Event::EvActPreviousHistory, &mut sent_user),
            "nexth" => send(Event::EvActNextHistory, &mut sent_user),
            "rot" => send(Event::EvActRotateMode, &mut sent_user),
            "ti" => send(Event::EvActToggleInteractive, &mut sent_user),
            "refresh" => send(Event::EvActRefreshCmd, &mut sent_user),
            "up" => send(Event::EvActUp(arg.and_then(|a| a.parse().ok()).unwrap_or(1)), &mut sent_user),
            "down" => send(Event::EvActDown(arg.and_then(|a| a.parse().ok()).unwrap_or(1)), &mut sent_user),
            "toggle" => send(Event::EvActToggle, &mut sent_user),
            "togall" => send(Event::EvActToggleAll, &mut sent_user),
            "selall" => send(Event::EvActSelectAll, &mut sent_user),
            "desel" => send(Event::EvActDeselectAll, &mut sent_user),
            "hb" => send(Event::EvHeartBeat, &mut sent_user),
            "wait" => thread::sleep(Duration::from_micros(arg.and_then(|a| a.parse().ok()).unwrap_or(100))),
            "idle" => {
                if !wait_idle(sent_user) {
                    idle_failed = true;
                }
            }
            "accept" => {
                // accept[:<arg enc>[:<key name enc>]]
                let mut parts = arg.unwrap_or("").splitn(2, ':');
                let a = parts.next().filter(|a| !a.is_empty()).map(dec_str);
                let key = parts
                    .next()
                    .and_then(|k| tuikit::key::from_keyname(&dec_str(k)))
                    .unwrap_or(Key::Null);
                sent_user += 1;
                sched::log(format!("user EvActAccept"));
                let _ = tx.send((key, Event::EvActAccept(a)));
                finished = true;
            }
            "abort" => {
                send(Event::EvActAbort, &mut sent_user);
                finished = true;
            }
            _ => {}
        }
        if finished {
            break;
        }
    }
    if !finished {
        // select-1 / exit-0 may end the session by themselves; otherwise settle and accept
        let done = wait_settle(|| is_ended() || sched::count("loop.quiet") > 0);
        if !done {
            idle_failed = true;
        }
        thread::sleep(Duration::from_millis(5));
        if !is_ended() && !wait_idle(sent_user) {
            idle_failed = true;
        }
        if is_ended() {
            result = rx_out.recv_timeout(Duration::from_millis(patience())).ok();
        } else {
            send(Event::EvActAccept(None), &mut sent_user);
        }
    }
    let output = match result {
        Some(s) => s,
        None => rx_out
            .recv_timeout(Duration::from_millis(patience()))
            .unwrap_or_else(|_| {
                TIMED_OUT.fetch_add(1, std::sync::atomic::Ordering::SeqCst);
                "hang".to_string()
            }),
    };
    if output != "hang" {
        let _ = model_thread.join();
    }
    let mut trace = sched::take_trace();
    if idle_failed {
        trace.push("idle-timeout".to_string());
    }
    let timeouts = sched::timeouts();
    sched::set_tracing(false);
    SessionResult { trace, output, timeouts }
}
