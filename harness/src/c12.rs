//! C12: the real `skim::field` functions, `DefaultSkimItem` with transform / matching fields, and
//! the engines (through the public factories) on one case line.  See lean/SkimModel/Driver/C12.lean
//! for the protocol.  The delimiter matches (`find_iter`) are the Lean model's parameter: they are
//! computed here with the real regex and sent along (m1, m2).
use crate::util::*;
use regex::Regex;
use skim::field::{
    get_string_by_range, parse_matching_fields, parse_transform_fields, FieldRange,
};
use skim::prelude::*;
use skim::verif::{escape_single_quote, inject_command, DefaultSkimItem, InjectContext};

fn enc_pairs(v: &[(usize, usize)]) -> String {
    if v.is_empty() {
        return "_".into();
    }
    v.iter().map(|(a, b)| format!("{}-{}", a, b)).collect::<Vec<_>>().join(",")
}

fn enc_range(r: &Option<FieldRange>) -> String {
    match r {
        None => "X".into(),
        Some(FieldRange::Single(n)) => format!("S{}", n),
        Some(FieldRange::LeftInf(n)) => format!("L{}", n),
        Some(FieldRange::RightInf(n)) => format!("R{}", n),
        Some(FieldRange::Both(l, r)) => format!("B{}:{}", l, r),
    }
}

fn join_or(empty: &str, v: Vec<String>) -> String {
    if v.is_empty() {
        empty.to_string()
    } else {
        v.join(",")
    }
}

fn matches_of(re: &Regex, text: &str) -> Vec<(usize, usize)> {
    re.find_iter(text).map(|m| (m.start(), m.end())).collect()
}

pub fn run(case: &str) -> String {
    let parts: Vec<&str> = case.split('|').collect();
    if parts.len() != 2 {
        return "error:bad-case".into();
    }
    let hd: Vec<&str> = parts[0].split(';').collect();
    if hd.len() != 4 && hd.len() != 5 {
        return "error:bad-case".into();
    }
    let with_binary = hd.len() == 5 && hd[4] == "k";
    let text = dec_str(hd[0]);
    let delim = match Regex::new(&dec_str(hd[1])) {
        Ok(r) => r,
        Err(_) => return "error:bad-delimiter".into(),
    };
    let mode = hd[2];
    let needle = dec_str(hd[3]);

    // ops
    let mut fr = vec![];
    let mut ip = vec![];
    let mut wf: Vec<FieldRange> = vec![];
    let mut nf: Vec<FieldRange> = vec![];
    let mut g = vec![];
    let mut ij_ok = true;
    let mut wraw: Vec<String> = vec![];
    let mut nraw: Vec<String> = vec![];
    for t in parts[1].split(' ').filter(|t| !t.is_empty()) {
        let f: Vec<&str> = t.split(':').collect();
        if f.len() < 2 {
            return "error:bad-op".into();
        }
        let rs = dec_str(f[1]);
        let r = FieldRange::from_str(&rs);
        fr.push(enc_range(&r));
        match (f[0], f.len()) {
            ("w", 2) => {
                wraw.push(rs.clone());
                if let Some(r) = r {
                    wf.push(r)
                }
            }
            ("n", 2) => {
                nraw.push(rs.clone());
                if let Some(r) = r {
                    nf.push(r)
                }
            }
            ("g", 2) => {
                let got = get_string_by_range(&delim, &text, &rs);
                g.push(match got {
                    None => "N".to_string(),
                    Some(s) => enc_bytes(s.as_bytes()),
                });
                // the `{R}` placeholder of inject_command (src/util.rs) is get_string_by_range(..).unwrap_or("")
                // whenever RE_FIELDS recognises `{R}` as a placeholder and R is not one of the special names
                let fits = !rs.is_empty()
                    && rs.chars().enumerate().all(|(i, c)| c.is_ascii_digit() || c == '.' || (c == '-' && i == 0));
                if fits {
                    let cmd = format!("{{{}}}", rs);
                    let ctx = InjectContext {
                        delimiter: &delim,
                        current_index: 0,
                        current_selection: &text,
                        indices: &[],
                        selections: &[],
                        query: "",
                        cmd_query: "",
                    };
                    let out = inject_command(&cmd, ctx).to_string();
                    let want = format!("'{}'", escape_single_quote(got.unwrap_or("")));
                    if out != want {
                        ij_ok = false;
                    }
                }
            }
            ("t", 3) => {
                let len: usize = match f[2].parse() {
                    Ok(l) => l,
                    Err(_) => return "error:bad-op".into(),
                };
                ip.push(match &r {
                    None => "X".to_string(),
                    Some(r) => match r.to_index_pair(len) {
                        None => "N".to_string(),
                        Some((a, b)) => format!("{}-{}", a, b),
                    },
                });
            }
            _ => return "error:bad-op".into(),
        }
    }

    let m1 = matches_of(&delim, &text);
    let w = parse_transform_fields(&delim, &text, &wf);
    let pm = parse_matching_fields(&delim, &text, &nf);
    let item = DefaultSkimItem::new(text.clone(), false, &wf, &nf, &delim);
    let it = item.text().to_string();
    let m2 = matches_of(&delim, &it);
    let mr = match item.get_matching_ranges() {
        None => "N".to_string(),
        Some(v) => enc_pairs(v),
    };

    // the option-string path of the command line: `-d D --with-nth a,b --nth c,d` go through
    // SkimItemReaderOption::{delimiter, with_nth, nth} (split on ',' + from_str) and the reader builds the item
    let wjoined = wraw.join(",");
    let njoined = nraw.join(",");
    let optable = !text.is_empty()
        && !text.contains(|c| c == '\n' || c == '\r' || c == '\0')
        && wraw.iter().chain(nraw.iter()).all(|r| !r.contains(','))
        && (wraw.is_empty() || !wjoined.is_empty())
        && (nraw.is_empty() || !njoined.is_empty());
    let rd = if optable {
        let opt = SkimItemReaderOption::default()
            .delimiter(&dec_str(hd[1]))
            .with_nth(&wjoined)
            .nth(&njoined)
            .build();
        let rx = SkimItemReader::new(opt).of_bufread(std::io::Cursor::new(text.clone().into_bytes()));
        match rx.recv_timeout(std::time::Duration::from_secs(5)) {
            Ok(it2) => {
                let same = it2.text() == item.text()
                    && it2.get_matching_ranges().map(|v| v.to_vec()) == item.get_matching_ranges().map(|v| v.to_vec())
                    && it2.output() == text.as_str();
                if same {
                    "ok"
                } else {
                    "differs"
                }
            }
            Err(_) => "differs",
        }
    } else {
        "skip"
    };

    let item: Arc<dyn SkimItem> = Arc::new(item);
    let mut query_used = String::new();
    let e = if mode == "x" {
        "-".to_string()
    } else {
        let engine: Box<dyn MatchEngine> = match mode {
            "r" | "rp" | "rs" => {
                let q = match mode {
                    "r" => needle.clone(),
                    "rp" => format!("^{}", needle),
                    _ => format!("{}$", needle),
                };
                query_used = q.clone();
                RegexEngineFactory::builder().build().create_engine_with_case(&q, CaseMatching::Respect)
            }
            _ => {
                let q = match mode {
                    "e" => format!("'{}", needle),
                    "p" => format!("^{}", needle),
                    "s" => format!("{}$", needle),
                    "b" => format!("^{}$", needle),
                    "i" => format!("!{}", needle),
                    "f" => needle.clone(),
                    _ => return "error:bad-mode".into(),
                };
                query_used = q.clone();
                ExactOrFuzzyEngineFactory::builder()
                    .build()
                    .create_engine_with_case(&q, CaseMatching::Respect)
            }
        };
        match engine.match_item(item.clone()) {
            None => "N".to_string(),
            Some(r) => match r.matched_range {
                MatchRange::ByteRange(b, e) => format!("B{}-{}", b, e),
                MatchRange::Chars(v) => format!("C{}", enc_nats(&v)),
            },
        }
    };

    // the real binary in filter mode (only when the runner provides it): the line is printed iff the engine matched
    let sk = match std::env::var("VERIF_SK_BIN") {
        Ok(bin)
            if with_binary
                && optable
                && mode != "x"
                && !query_used.is_empty()
                && !query_used.contains(|c| c == ' ' || c == '|' || c == '\\' || c == '\t') =>
        {
            use std::io::Write;
            use std::process::{Command, Stdio};
            let mut cmd = Command::new(bin);
            cmd.arg(format!("--delimiter={}", dec_str(hd[1])));
            if !wraw.is_empty() {
                cmd.arg(format!("--with-nth={}", wjoined));
            }
            if !nraw.is_empty() {
                cmd.arg(format!("--nth={}", njoined));
            }
            if mode.starts_with('r') {
                cmd.arg("--regex");
            }
            cmd.arg("--case=respect").arg(format!("--filter={}", query_used));
            cmd.stdin(Stdio::piped()).stdout(Stdio::piped()).stderr(Stdio::null());
            match cmd.spawn() {
                Ok(mut ch) => {
                    {
                        let mut si = ch.stdin.take().unwrap();
                        let _ = si.write_all(text.as_bytes());
                        let _ = si.write_all(b"\n");
                    }
                    match ch.wait_with_output() {
                        Ok(o) => {
                            let want = if e == "N" { String::new() } else { format!("{}\n", text) };
                            if String::from_utf8_lossy(&o.stdout) == want {
                                "ok"
                            } else {
                                "differs"
                            }
                        }
                        Err(_) => "differs",
                    }
                }
                Err(_) => "differs",
            }
        }
        _ => "skip",
    };

    format!(
        "m1={};fr={};ip={};w={};it={};m2={};pm={};mr={};g={};ij={};rd={};sk={};e={}",
        enc_pairs(&m1),
        join_or("_", fr),
        join_or("_", ip),
        enc_bytes(w.as_bytes()),
        enc_bytes(it.as_bytes()),
        enc_pairs(&m2),
        enc_pairs(&pm),
        mr,
        join_or("_", g),
        if ij_ok { "ok" } else { "differs" },
        rd,
        sk,
        e
    )
}
