//! C02: drive the real `OrderedVec<T>` (src/orderedvec.rs) with a history of append/get/len/iter/clear.
//! `T` is ordered by an `i32` key only but carries a unique id (like `MatchedItem`, which compares
//! the rank only), so the driver can check that what is listed is a permutation of what arrived.
//! With the third header flag set the items are real `MatchedItem`s (src/item.rs) whose rank array is a
//! monotone image of the key (three base-1024 digits, most significant first), so `impl Ord for MatchedItem`
//! (lexicographic order of rank arrays) is exercised through the same histories.
//! With the flag at 2 the same history goes through the list widget `Selection` (options.tac / options.nosort,
//! `append_sorted_items`, `clear`, `get_num_options`, row accessor), which is how skim uses the container.
//! Case and answer format: see lean/SkimModel/Driver/C02.lean.
use skim::verif::{MatchedItem, OrderedVec};
use std::cmp::Ordering;
use std::sync::Arc;

/// what the history runner needs of an item type
trait Elem: Send + Ord + 'static {
    fn make(key: i32, id: u32) -> Self;
    fn show(&self) -> String;
}

#[derive(Clone, Copy, Debug)]
struct It {
    key: i32,
    id: u32,
}

impl PartialEq for It {
    fn eq(&self, other: &Self) -> bool {
        self.key == other.key
    }
}
impl Eq for It {}
impl PartialOrd for It {
    fn partial_cmp(&self, other: &Self) -> Option<Ordering> {
        Some(self.cmp(other))
    }
}
impl Ord for It {
    fn cmp(&self, other: &Self) -> Ordering {
        self.key.cmp(&other.key)
    }
}

impl Elem for It {
    fn make(key: i32, id: u32) -> Self {
        It { key, id }
    }
    fn show(&self) -> String {
        format!("{}:{}", self.key, self.id)
    }
}

/// key = d0 * 2^20 + d1 * 2^10 + d2 with 0 <= d1, d2 < 1024 (d0 signed): comparing [d0, d1, d2, 0]
/// lexicographically is comparing keys
fn rank_of(key: i32) -> [i32; 4] {
    // (the two low digits are shifted to -512..511: later slots of a real rank are negative for `-begin`, `-end`, `-length`)
    [key >> 20, ((key >> 10) & 1023) - 512, (key & 1023) - 512, 0]
}

impl Elem for MatchedItem {
    fn make(key: i32, id: u32) -> Self {
        MatchedItem {
            item: Arc::new(String::new()),
            rank: rank_of(key),
            matched_range: None,
            item_idx: id,
        }
    }
    fn show(&self) -> String {
        let r = self.rank;
        format!("{}:{}", (r[0] << 20) | ((r[1] + 512) << 10) | (r[2] + 512), self.item_idx)
    }
}

fn parse_piece(t: &str, out: &mut Vec<i32>) -> Option<()> {
    if let Some(p) = t.find('~') {
        let lo: i32 = t[..p].parse().ok()?;
        let hi: i32 = t[p + 1..].parse().ok()?;
        if t[p + 1..].contains('~') {
            return None;
        }
        let mut k = lo;
        while k < hi {
            out.push(k);
            k += 1;
        }
        return Some(());
    }
    if let Some(p) = t.find('*') {
        let k: i32 = t[..p].parse().ok()?;
        let n: usize = t[p + 1..].parse().ok()?;
        for _ in 0..n {
            out.push(k);
        }
        return Some(());
    }
    out.push(t.parse().ok()?);
    Some(())
}

fn parse_batch(t: &str) -> Option<Vec<i32>> {
    let mut out = Vec::new();
    if t == "_" || t.is_empty() {
        return Some(out);
    }
    for p in t.split(',') {
        parse_piece(p, &mut out)?;
    }
    Some(out)
}

pub fn run(case: &str) -> String {
    let parts: Vec<&str> = case.split('|').collect();
    if parts.len() != 2 {
        return "error:bad-case".into();
    }
    let hd: Vec<char> = parts[0].chars().collect();
    if !(hd.len() == 2 || hd.len() == 3)
        || !hd[..2].iter().all(|c| *c == '0' || *c == '1')
        || !hd[2..].iter().all(|c| *c == '0' || *c == '1' || *c == '2')
    {
        return "error:bad-config".into();
    }
    if hd.len() == 3 && hd[2] == '2' {
        selection_history(hd[0] == '1', hd[1] == '1', parts[1])
    } else if hd.len() == 3 && hd[2] == '1' {
        history::<MatchedItem>(hd[0] == '1', hd[1] == '1', parts[1])
    } else {
        history::<It>(hd[0] == '1', hd[1] == '1', parts[1])
    }
}

fn history<T: Elem>(tac: bool, nosort: bool, ops: &str) -> String {
    let mut v: OrderedVec<T> = OrderedVec::new();
    v.tac(tac).nosort(nosort);
    let mut next_id: u32 = 0;
    let mut out: Vec<String> = Vec::new();
    for t in ops.split(' ').filter(|t| !t.is_empty()) {
        let mut it = t.splitn(2, ':');
        let name = it.next().unwrap_or("");
        let arg = it.next();
        match (name, arg) {
            ("a", Some(b)) => {
                let keys = match parse_batch(b) {
                    Some(k) => k,
                    None => return "error:bad-op".into(),
                };
                let mut items = Vec::with_capacity(keys.len());
                for k in keys {
                    items.push(T::make(k, next_id));
                    next_id += 1;
                }
                v.append(items);
                out.push("-".into());
            }
            ("g", Some(i)) => {
                let i: usize = match i.parse() {
                    Ok(i) => i,
                    Err(_) => return "error:bad-op".into(),
                };
                match v.get(i) {
                    Some(r) => out.push(format!("S{}", r.show())),
                    None => out.push("N".into()),
                };
            }
            ("l", None) => {
                if v.is_empty() != (v.len() == 0) {
                    return "error:is_empty-disagrees-with-len".into();
                }
                out.push(format!("L{}", v.len()))
            }
            ("i", None) => {
                let items: Vec<String> = v.iter().map(|r| r.show()).collect();
                if items.is_empty() {
                    out.push("I_".into());
                } else {
                    out.push(format!("I{}", items.join(",")));
                }
            }
            ("c", None) => {
                v.clear();
                out.push("-".into());
            }
            _ => return "error:bad-op".into(),
        }
    }
    out.join(" ")
}

fn show_rank(r: [i32; 4], idx: u32) -> String {
    format!("{}:{}", (r[0] << 20) | ((r[1] + 512) << 10) | (r[2] + 512), idx)
}

/// the same histories one level up: the list widget `Selection` (src/selection.rs) configured through
/// `SkimOptions { tac, nosort }`, fed through `append_sorted_items`, read through `get_num_options` and the
/// row accessor `verif_item_at` (= `self.items.get(idx)`, what `draw` shows on that row); `i` reads rows 0, 1, 2, …
fn selection_history(tac: bool, nosort: bool, ops: &str) -> String {
    use skim::prelude::*;
    use skim::verif::Selection;
    let mut options = SkimOptionsBuilder::default().build().unwrap();
    options.tac = tac;
    options.nosort = nosort;
    let mut sel = Selection::with_options(&options);
    let mut next_id: u32 = 0;
    let mut out: Vec<String> = Vec::new();
    for t in ops.split(' ').filter(|t| !t.is_empty()) {
        let mut it = t.splitn(2, ':');
        let name = it.next().unwrap_or("");
        let arg = it.next();
        match (name, arg) {
            ("a", Some(b)) => {
                let keys = match parse_batch(b) {
                    Some(k) => k,
                    None => return "error:bad-op".into(),
                };
                let mut items = Vec::with_capacity(keys.len());
                for k in keys {
                    items.push(<MatchedItem as Elem>::make(k, next_id));
                    next_id += 1;
                }
                sel.append_sorted_items(items);
                out.push("-".into());
            }
            ("g", Some(i)) => {
                let i: usize = match i.parse() {
                    Ok(i) => i,
                    Err(_) => return "error:bad-op".into(),
                };
                match sel.verif_item_at(i) {
                    Some((r, idx)) => out.push(format!("S{}", show_rank(r, idx))),
                    None => out.push("N".into()),
                };
            }
            ("l", None) => out.push(format!("L{}", sel.get_num_options())),
            ("i", None) => {
                let mut items: Vec<String> = Vec::new();
                let mut i = 0;
                while let Some((r, idx)) = sel.verif_item_at(i) {
                    items.push(show_rank(r, idx));
                    i += 1;
                }
                if items.is_empty() {
                    out.push("I_".into());
                } else {
                    out.push(format!("I{}", items.join(",")));
                }
            }
            ("c", None) => {
                sel.clear();
                out.push("-".into());
            }
            _ => return "error:bad-op".into(),
        }
    }
    out.join(" ")
}
