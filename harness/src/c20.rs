//! C20: drive the real `Previewer` (worker thread, child processes, waiter threads) with a request
//! script and report the ordered trace of its shared-memory steps plus the final pane.
//!
//! case  = `<items>~<global>~<offset>~<rules>|<ops>`
//! items = `,`-separated `<K><delay_ms>x<lines>x<vscroll>x<voffset>x<uses_selection>`, ids 1..n
//!         K: T text, C command exit 0, F command exit 3 (stderr shown), K command killing itself,
//!            E empty command, G global command (`Previewer::new(Some(cmd))`, `{}` placeholders)
//! global = `<delay_ms>x<lines>`; offset = `-` | `f<N>` ("+{2}-N") | `p<N>` ("+{2}-/N")
//! rules = `&`-separated `verif::sched` rule strings or `-`
//! ops   = `r:<item>:<q>:<cq>:<sel>:<force>` | `w<ms>` | `s` (settle) | `d<n>` `u<n>` `D<n>` `U<n>` (scroll)
//!         | `p<w>x<h>` (draw on a w x h canvas)
//! Only benign commands are ever built here: `sleep`, `echo`, a counting loop, `kill -KILL $$`, `exit 3`.
use skim::verif::sched;
use skim::verif::{Event, EventHandler, Previewer};
use skim::{ItemPreview, PreviewContext, PreviewPosition, SkimItem};
use std::borrow::Cow;
use std::sync::Arc;
use std::time::{Duration, Instant};
use tuikit::prelude::{Canvas, Cell, Draw, Size};

#[derive(Clone, Debug)]
struct Spec {
    id: usize,
    kind: char,
    delay: u64,
    lines: usize,
    vs: usize,
    vo: usize,
    uses_sel: bool,
}

struct PItem {
    spec: Spec,
}

fn filler(lines: usize) -> String {
    // lines 2..=lines are "l<k>"
    if lines <= 1 {
        String::new()
    } else {
        format!("; i=2; while [ $i -le {} ]; do echo l$i; i=$((i+1)); done", lines)
    }
}

fn sleep_part(ms: u64) -> String {
    if ms == 0 {
        String::new()
    } else {
        format!("sleep {}.{:03}; ", ms / 1000, ms % 1000)
    }
}

impl PItem {
    fn tag(&self, ctx: &PreviewContext) -> String {
        let q = if ctx.query.is_empty() { "-" } else { &ctx.query[1..] };
        let cq = if ctx.cmd_query.is_empty() { "-" } else { &ctx.cmd_query[1..] };
        let mut t = format!("R{}_i{}_q{}_c{}", ctx.current_index, self.spec.id, q, cq);
        if self.spec.uses_sel {
            let s: Vec<String> = ctx.selected_indices.iter().map(|i| i.to_string()).collect();
            t.push_str("_s");
            t.push_str(&if s.is_empty() { "_".to_string() } else { s.join("+") });
        }
        t
    }

    fn pos(&self) -> Option<PreviewPosition> {
        if self.spec.vs == 0 && self.spec.vo == 0 {
            None
        } else {
            Some(PreviewPosition {
                h_scroll: Size::Default,
                h_offset: Size::Default,
                v_scroll: Size::Fixed(self.spec.vs),
                v_offset: Size::Fixed(self.spec.vo),
            })
        }
    }
}

impl SkimItem for PItem {
    fn text(&self) -> Cow<str> {
        // every item lists the SAME text (duplicate lines, lines that differ only in columns hidden by --with-nth):
        // which item is current is a matter of identity, never of the listed text
        Cow::Borrowed("it")
    }

    fn output(&self) -> Cow<str> {
        // field 2 carries the +SCROLL line number for the global offset expression
        Cow::Owned(format!("it{} {} z", self.spec.id, self.spec.vs))
    }

    fn preview(&self, ctx: PreviewContext) -> ItemPreview {
        let s = &self.spec;
        let tag = self.tag(&ctx);
        match s.kind {
            'T' => {
                let mut text = String::new();
                if s.lines >= 1 {
                    text.push_str(&tag);
                    for k in 2..=s.lines {
                        text.push_str(&format!("\nl{}", k));
                    }
                }
                match self.pos() {
                    None => ItemPreview::Text(text),
                    Some(p) => ItemPreview::TextWithPos(text, p),
                }
            }
            'C' | 'F' | 'K' => {
                let body = match s.kind {
                    'C' => {
                        if s.lines == 0 {
                            "true".to_string()
                        } else {
                            format!("echo {}{}", tag, filler(s.lines))
                        }
                    }
                    'F' => {
                        // the exit status of a command that FAILS BY ITSELF: small, or in the range shells use for "died of a signal"
                        let code = [3, 130, 255, 137][(s.lines + s.delay as usize) % 4];
                        if s.lines == 0 {
                            format!("exit {}", code)
                        } else {
                            format!("(echo {}{}) 1>&2; exit {}", tag, filler(s.lines), code)
                        }
                    }
                    _ => "kill -KILL $$".to_string(),
                };
                let cmd = format!("{}{}", sleep_part(s.delay), body);
                match self.pos() {
                    None => ItemPreview::Command(cmd),
                    Some(p) => ItemPreview::CommandWithPos(cmd, p),
                }
            }
            'E' => ItemPreview::Command(String::new()),
            _ => ItemPreview::Global,
        }
    }
}

struct Grid {
    w: usize,
    h: usize,
    cells: Vec<Vec<char>>,
}

impl Canvas for Grid {
    fn size(&self) -> tuikit::Result<(usize, usize)> {
        Ok((self.w, self.h))
    }
    fn clear(&mut self) -> tuikit::Result<()> {
        for r in self.cells.iter_mut() {
            for c in r.iter_mut() {
                *c = ' ';
            }
        }
        Ok(())
    }
    fn put_cell(&mut self, row: usize, col: usize, cell: Cell) -> tuikit::Result<usize> {
        if row < self.h && col < self.w {
            self.cells[row][col] = cell.ch;
        }
        Ok(1)
    }
    fn set_cursor(&mut self, _row: usize, _col: usize) -> tuikit::Result<()> {
        Ok(())
    }
    fn show_cursor(&mut self, _show: bool) -> tuikit::Result<()> {
        Ok(())
    }
}

fn enc(s: &str) -> String {
    if s.is_empty() {
        "-".to_string()
    } else {
        s.chars().map(|c| (c as u32).to_string()).collect::<Vec<_>>().join(".")
    }
}

/// quiescent = every sent event received, the worker back at the top of its loop, every waiter gone
fn settle(sent: u64, limit_ms: u64) -> bool {
    let deadline = Instant::now() + Duration::from_millis(limit_ms);
    loop {
        let got = sched::count("pv.recv") + sched::count("pv.tryrecv");
        if got >= sent {
            let outer = sched::count("pv.recv");
            let idle = sched::count("pv.idle");
            if idle == outer + 1 {
                let spawned = sched::count("pv.spawned");
                let gone = sched::count("pv.wexit");
                if spawned == gone {
                    return true;
                }
            }
        }
        if Instant::now() >= deadline {
            return false;
        }
        std::thread::sleep(Duration::from_micros(300));
    }
}

fn parse_spec(id: usize, t: &str) -> Option<Spec> {
    let kind = t.chars().next()?;
    if !"TCFKEG".contains(kind) {
        return None;
    }
    let nums: Vec<usize> = t[1..].split('x').filter_map(|x| x.parse().ok()).collect();
    if nums.len() != 5 {
        return None;
    }
    Some(Spec {
        id,
        kind,
        delay: nums[0].min(200) as u64,
        lines: nums[1].min(400),
        vs: nums[2],
        vo: nums[3],
        uses_sel: nums[4] == 1,
    })
}

pub fn run(case: &str) -> String {
    let parts: Vec<&str> = case.split('|').collect();
    if parts.len() != 2 {
        return "error:bad-case".into();
    }
    let hd: Vec<&str> = parts[0].split('~').collect();
    if hd.len() != 4 {
        return "error:bad-case".into();
    }
    let mut items: Vec<Arc<dyn SkimItem>> = vec![];
    for (k, t) in hd[0].split(',').filter(|t| !t.is_empty()).enumerate() {
        match parse_spec(k + 1, t) {
            Some(spec) => items.push(Arc::new(PItem { spec })),
            None => return "error:bad-item".into(),
        }
    }
    let g: Vec<usize> = hd[1].split('x').filter_map(|x| x.parse().ok()).collect();
    if g.len() != 2 {
        return "error:bad-global".into();
    }
    let gcmd = format!(
        "{}echo G_{{n}}_{{q}}_{{cq}}_{{+n}}{}",
        sleep_part(g[0].min(200) as u64),
        filler(g[1].min(400))
    );
    let offset = match hd[2].chars().next() {
        Some('-') | None => String::new(),
        Some('f') => format!("+{{2}}-{}", &hd[2][1..]),
        Some('p') => format!("+{{2}}-/{}", &hd[2][1..]),
        _ => return "error:bad-offset".into(),
    };
    std::env::set_var("SHELL", "/bin/sh");
    sched::reset();
    if hd[3] != "-" {
        for r in hd[3].split('&') {
            if !sched::add_rule_str(r) {
                return "error:bad-rule".into();
            }
        }
    }
    sched::set_tracing(true);
    let mut pv = Previewer::new(Some(gcmd), || {}).preview_offset(offset);
    let mut extra: Vec<String> = vec![];
    for (i, op) in parts[1].split(' ').filter(|t| !t.is_empty()).enumerate() {
        let c = op.chars().next().unwrap();
        match c {
            'r' => {
                let f: Vec<&str> = op.split(':').collect();
                if f.len() != 6 {
                    return "error:bad-op".into();
                }
                let it: usize = match f[1].parse() {
                    Ok(n) if n <= items.len() => n,
                    _ => return "error:bad-op".into(),
                };
                let item: Option<Arc<dyn SkimItem>> = if it == 0 { None } else { Some(items[it - 1].clone()) };
                let q: Option<String> = if f[2] == "-" { None } else { Some(format!("q{}", f[2])) };
                let cq: Option<String> = if f[3] == "-" { None } else { Some(format!("c{}", f[3])) };
                // `c`: nothing selected, and the closure hands out the current item (Selection::get_selected_indices_and_items)
                let cursor_sel = f[4] == "c";
                let sel: Vec<usize> = if f[4] == "_" || cursor_sel {
                    vec![]
                } else {
                    f[4].split('+').filter_map(|x| x.parse().ok()).collect()
                };
                if sel.iter().any(|&s| s == 0 || s > items.len()) {
                    return "error:bad-op".into();
                }
                let sel_items: Vec<Arc<dyn SkimItem>> = sel.iter().map(|&s| items[s - 1].clone()).collect();
                let force = f[5] == "1";
                sched::log(format!("req:{}", i));
                let n = sel.len();
                if cursor_sel && it != 0 {
                    let cur = items[it - 1].clone();
                    pv.on_item_change(i, item, q, cq, 0, || (vec![i], vec![cur.clone()]), force);
                } else {
                    pv.on_item_change(i, item, q, cq, n, || (sel.clone(), sel_items.clone()), force);
                }
            }
            'w' => {
                let ms: u64 = op[1..].parse().unwrap_or(0);
                std::thread::sleep(Duration::from_millis(ms.min(300)));
            }
            's' => {
                if !settle(sched::count("pv.send"), 4000) {
                    extra.push("settle-timeout".into());
                }
                sched::log("settled".to_string());
            }
            'd' | 'u' | 'D' | 'U' => {
                let n: i32 = op[1..].parse().unwrap_or(1);
                let ev = match c {
                    'd' => Event::EvActPreviewDown(n),
                    'u' => Event::EvActPreviewUp(n),
                    'D' => Event::EvActPreviewPageDown(n),
                    _ => Event::EvActPreviewPageUp(n),
                };
                sched::log(format!("act:{}", i));
                let _ = pv.handle(&ev);
            }
            'p' => {
                let wh: Vec<usize> = op[1..].split('x').filter_map(|x| x.parse().ok()).collect();
                if wh.len() != 2 {
                    return "error:bad-op".into();
                }
                let mut grid = Grid { w: wh[0], h: wh[1], cells: vec![vec![' '; wh[0]]; wh[1]] };
                sched::log(format!("draw:{}", i));
                let _ = pv.draw(&mut grid);
                let rows: Vec<String> = grid
                    .cells
                    .iter()
                    .map(|r| enc(r.iter().collect::<String>().trim_end()))
                    .collect();
                sched::log(format!("pane:{}", rows.join(",")));
            }
            _ => return "error:bad-op".into(),
        }
    }
    if !settle(sched::count("pv.send"), 4000) {
        extra.push("settle-timeout".into());
    }
    sched::log("settled".to_string());
    let content = pv.verif_content();
    let (v, h) = pv.verif_scroll();
    sched::set_tracing(false);
    let trace = sched::take_trace();
    let timeouts = sched::timeouts();
    drop(pv);
    sched::reset();
    let toks: Vec<String> = trace.iter().map(|t| t.strip_prefix("pv.").unwrap_or(t).to_string()).collect();
    let _ = timeouts;
    format!(
        "{} # F:{}:{}:{}:{}{}",
        toks.join(" "),
        enc(content.first().map(|s| s.as_str()).unwrap_or("")),
        content.len(),
        v,
        h,
        if extra.is_empty() { String::new() } else { format!(" !{}", extra.join(",")) }
    )
}
