//! C08: reported match positions.  One (query, item) per case through the PUBLIC engine factories,
//! then the consumers of the positions: `SkimItem::display` and the real `Selection` drawn on a
//! recording canvas.  See lean/SkimModel/Driver/C08.lean for the protocol.
//!
//! mode: t = AndOrEngineFactory(ExactOrFuzzyEngineFactory), e = ExactOrFuzzyEngineFactory alone (the query is ONE
//! term), r = RegexEngineFactory (what `Model` uses in regex mode).
//! case = `<mode t|e|r>;<exact 0|1>;<case s|r|i>;<algo 1|2|c>;<query>;<text>;<delim>;<nth>;<W>;<tabstop>;<flags>`
//!   nth   = `_` (no --nth) | `<range>,<range>,…` (dot-encoded FieldRange strings: a `DefaultSkimItem`)
//!         | `@<s>-<e>,…` / `@_` (raw byte ranges served verbatim by a custom `SkimItem`)
//!   flags = `-` or letters: `h` no_hscroll, `k` keep_right
//! answer = `;`-separated `key=value`:
//!   it  item.text() bytes (hex)             mr  item.get_matching_ranges()  (`N` = None)
//!   st  engine tree recovered from Display  (as in C04: `V:<leaf>` / `O:<leaf>+<leaf>/<leaf>`)
//!   raw answers of the EXTERNAL matchers (regex crate / fuzzy-matcher), per leaf (`/`) and per clipped
//!       matching range (`,`): `s-e` | `n` (no match) | `x` (the range cannot be sliced) | `-` (leaf has no matcher);
//!       fuzzy: `<score>:<i.j.k>` (`e` = empty index list)
//!   res `N` | `B<b>-<e>` | `C<i,j,…>` | `P` (panic)          rk  rank under the probe builder [Score,Begin,End,Length]
//!   hl  char indices that carry the highlight attribute in `item.display(ctx).iter()` (`P` = panic, `-` = not run)
//!   ws  display width per char of the text (`t` = tab)
//!   cv  canvas cells of the item row from column 2 on: `<code point>[h]` (`h` = highlight attribute), `P` = panic
use crate::c03::{canon_term, parse_algo, parse_case};
use crate::c04::canon_query;
use crate::canvas::RecCanvas;
use crate::util::*;
use fuzzy_matcher::clangd::ClangdMatcher;
use fuzzy_matcher::skim::SkimMatcherV2;
use fuzzy_matcher::FuzzyMatcher;
use regex::Regex;
use skim::field::FieldRange;
use skim::prelude::*;
use skim::verif::{DefaultSkimItem, MatchedItem, RankBuilder, RankCriteria, Selection, DEFAULT_THEME};
use std::panic::{catch_unwind, AssertUnwindSafe};
use tuikit::prelude::{Attr, Color, Draw, Effect};
use unicode_width::UnicodeWidthChar;

struct RawItem {
    text: String,
    ranges: Vec<(usize, usize)>,
}

impl SkimItem for RawItem {
    fn text(&self) -> Cow<str> {
        Cow::Borrowed(&self.text)
    }
    fn get_matching_ranges(&self) -> Option<&[(usize, usize)]> {
        Some(&self.ranges)
    }
}

fn enc_pairs(v: &[(usize, usize)]) -> String {
    if v.is_empty() {
        return "_".into();
    }
    v.iter().map(|(a, b)| format!("{}-{}", a, b)).collect::<Vec<_>>().join(",")
}

fn dec_pairs(s: &str) -> Option<Vec<(usize, usize)>> {
    if s == "_" || s.is_empty() {
        return Some(vec![]);
    }
    s.split(',')
        .map(|p| {
            let mut it = p.split('-');
            let a = it.next()?.parse().ok()?;
            let b = it.next()?.parse().ok()?;
            Some((a, b))
        })
        .collect()
}

#[allow(deprecated)]
fn fuzzy_matcher(algo: FuzzyAlgorithm, cm: CaseMatching) -> Box<dyn FuzzyMatcher> {
    use fuzzy_matcher::skim::SkimMatcher;
    match algo {
        FuzzyAlgorithm::SkimV1 => Box::new(SkimMatcher::default()),
        FuzzyAlgorithm::SkimV2 => {
            let m = SkimMatcherV2::default().element_limit(1024 * 1024 * 1024);
            Box::new(match cm {
                CaseMatching::Respect => m.respect_case(),
                CaseMatching::Ignore => m.ignore_case(),
                CaseMatching::Smart => m.smart_case(),
            })
        }
        FuzzyAlgorithm::Clangd => {
            let m = ClangdMatcher::default();
            Box::new(match cm {
                CaseMatching::Respect => m.respect_case(),
                CaseMatching::Ignore => m.ignore_case(),
                CaseMatching::Smart => m.smart_case(),
            })
        }
    }
}

enum Leaf {
    NoMatcher,
    Re(Option<Regex>),
    Fz(String),
}

/// leaf engines in Display order, from the canonical structure string of C04
fn leaves(st: &str) -> Option<Vec<Leaf>> {
    let body = st.strip_prefix("V:").or_else(|| st.strip_prefix("O:"))?;
    let mut out = vec![];
    for alt in body.split('/') {
        for t in alt.split('+') {
            if t.is_empty() {
                continue;
            }
            let f: Vec<&str> = t.split(':').collect();
            out.push(match (f[0], f.len()) {
                ("A", 1) => Leaf::NoMatcher,
                ("F", 2) => Leaf::Fz(dec_str(f[1])),
                ("R", 2) => Leaf::Re(Regex::new(&dec_str(f[1])).ok()),
                ("E", 3) => Leaf::NoMatcher,
                ("E", 6) => {
                    let mut p = String::new();
                    if f[2] == "1" {
                        p.push_str("(?i)");
                    }
                    if f[3] == "1" {
                        p.push('^');
                    }
                    p.push_str(&regex::escape(&dec_str(f[5])));
                    if f[4] == "1" {
                        p.push('$');
                    }
                    Leaf::Re(Regex::new(&p).ok())
                }
                _ => return None,
            });
        }
    }
    Some(out)
}

fn panic_free<T>(f: impl FnOnce() -> T) -> Option<T> {
    catch_unwind(AssertUnwindSafe(f)).ok()
}

pub fn run(case: &str) -> String {
    let p: Vec<&str> = case.split(';').collect();
    if p.len() != 11 {
        return "error:bad-case".into();
    }
    let exact = p[1] == "1";
    let (cm, algo) = match (parse_case(p[2]), parse_algo(p[3])) {
        (Some(c), Some(a)) => (c, a),
        _ => return "error:bad-cfg".into(),
    };
    let query = dec_str(p[4]);
    let text = dec_str(p[5]);
    let delim = match Regex::new(&dec_str(p[6])) {
        Ok(r) => r,
        Err(_) => return "error:bad-delimiter".into(),
    };
    let (width, tabstop): (usize, usize) = match (p[8].parse(), p[9].parse()) {
        (Ok(w), Ok(t)) => (w, t),
        _ => return "error:bad-geometry".into(),
    };
    let flags = p[10];

    // the item
    let item: Arc<dyn SkimItem> = if let Some(raw) = p[7].strip_prefix('@') {
        match dec_pairs(raw) {
            Some(ranges) => Arc::new(RawItem { text: text.clone(), ranges }),
            None => return "error:bad-ranges".into(),
        }
    } else {
        let nf: Vec<FieldRange> = if p[7] == "_" {
            vec![]
        } else {
            p[7].split(',').filter_map(|r| FieldRange::from_str(&dec_str(r))).collect()
        };
        Arc::new(DefaultSkimItem::new(text.clone(), false, &[], &nf, &delim))
    };
    let it = item.text().to_string();
    let mr = item.get_matching_ranges().map(|v| v.to_vec());

    // the engine, through the public factories, with a rank builder that exposes begin / end / length
    let rb = Arc::new(RankBuilder::new(vec![
        RankCriteria::Score,
        RankCriteria::Begin,
        RankCriteria::End,
        RankCriteria::Length,
    ]));
    let engine: Box<dyn MatchEngine> = match p[0] {
        "t" => AndOrEngineFactory::new(
            ExactOrFuzzyEngineFactory::builder()
                .exact_mode(exact)
                .fuzzy_algorithm(algo)
                .rank_builder(rb)
                .build(),
        )
        .create_engine_with_case(&query, cm),
        "e" => ExactOrFuzzyEngineFactory::builder()
            .exact_mode(exact)
            .fuzzy_algorithm(algo)
            .rank_builder(rb)
            .build()
            .create_engine_with_case(&query, cm),
        "r" => RegexEngineFactory::builder()
            .rank_builder(rb)
            .build()
            .create_engine_with_case(&query, cm),
        _ => return "error:bad-mode".into(),
    };
    let st = if p[0] == "t" {
        canon_query(&format!("{}", engine))
    } else {
        format!("V:{}", canon_term(&format!("{}", engine)))
    };

    // raw answers of the external matchers on every clipped slice
    let default_range = vec![(0, it.len())];
    let slices: Vec<Option<&str>> = mr
        .as_ref()
        .unwrap_or(&default_range)
        .iter()
        .map(|&(s, e)| it.get(s.min(it.len())..e.min(it.len())))
        .collect();
    let fm = fuzzy_matcher(algo, cm);
    let raw = match leaves(&st) {
        None => "?".to_string(),
        Some(ls) => ls
            .iter()
            .map(|l| {
                let per: Vec<String> = slices
                    .iter()
                    .map(|sl| match (l, sl) {
                        (Leaf::NoMatcher, _) | (Leaf::Re(None), _) => "-".to_string(),
                        (_, None) => "x".to_string(),
                        (Leaf::Re(Some(re)), Some(s)) => match re.find(s) {
                            Some(m) => format!("{}-{}", m.start(), m.end()),
                            None => "n".to_string(),
                        },
                        (Leaf::Fz(body), Some(s)) => match fm.fuzzy_indices(s, body) {
                            Some((score, idx)) => format!(
                                "{}:{}",
                                score,
                                if idx.is_empty() {
                                    "e".to_string()
                                } else {
                                    idx.iter().map(|i| i.to_string()).collect::<Vec<_>>().join(".")
                                }
                            ),
                            None => "n".to_string(),
                        },
                    })
                    .collect();
                if per.is_empty() {
                    "_".to_string()
                } else {
                    per.join(",")
                }
            })
            .collect::<Vec<_>>()
            .join("/"),
    };

    // the real answer
    let result = panic_free(|| engine.match_item(item.clone()));
    let (res, rk) = match &result {
        None => ("P".to_string(), "-".to_string()),
        Some(None) => ("N".to_string(), "-".to_string()),
        Some(Some(r)) => (
            match &r.matched_range {
                MatchRange::ByteRange(b, e) => format!("B{}-{}", b, e),
                MatchRange::Chars(v) => format!("C{}", enc_nats(v)),
            },
            enc_nats(&r.rank),
        ),
    };

    // consumers
    let ws = if it.is_empty() {
        "-".to_string()
    } else {
        it.chars()
            .map(|c| if c == '\t' { "t".to_string() } else { c.width().unwrap_or(2).to_string() })
            .collect::<Vec<_>>()
            .join(".")
    };
    let (mut hl, mut cv) = ("-".to_string(), "-".to_string());
    if let Some(Some(r)) = result {
        // (1) SkimItem::display, the way draw_item calls it
        let probe = Attr {
            fg: Color::Rgb(1, 2, 3),
            bg: Color::Rgb(4, 5, 6),
            effect: Effect::UNDERLINE,
        };
        let range = r.matched_range.clone();
        let item2 = item.clone();
        hl = match panic_free(move || {
            let item_text = item2.text();
            let matches = match range {
                MatchRange::Chars(ref v) => Matches::CharIndices(v),
                MatchRange::ByteRange(s, e) => Matches::ByteRange(s, e),
            };
            let ctx = DisplayContext {
                text: &item_text,
                score: 0,
                matches,
                container_width: width.saturating_sub(2),
                highlight_attr: probe,
            };
            let d = item2.display(ctx);
            let v: Vec<usize> = d.iter().enumerate().filter(|(_, (_, a))| *a == probe).map(|(i, _)| i).collect();
            v
        }) {
            Some(v) => enc_nats(&v),
            None => "P".to_string(),
        };

        // (2) the real Selection drawing that MatchedItem
        let ts = tabstop.to_string();
        let mi = MatchedItem {
            item: item.clone(),
            rank: r.rank,
            matched_range: Some(r.matched_range.clone()),
            item_idx: 0,
        };
        cv = match panic_free(move || {
            let mut options = SkimOptionsBuilder::default().build().unwrap();
            options.tabstop = Some(&ts);
            options.no_hscroll = flags.contains('h');
            options.keep_right = flags.contains('k');
            let mut sel = Selection::with_options(&options);
            sel.append_sorted_items(vec![mi]);
            let mut c = RecCanvas::new(width, 1);
            match sel.draw(&mut c) {
                Ok(()) => {
                    let hi = DEFAULT_THEME.current().extend(DEFAULT_THEME.current_match());
                    let cells: Vec<String> = (2..width)
                        .filter_map(|col| c.cell(0, col))
                        .map(|(ch, a)| format!("{}{}", ch as u32, if a == hi { "h" } else { "" }))
                        .collect();
                    if cells.is_empty() {
                        "-".to_string()
                    } else {
                        cells.join(".")
                    }
                }
                Err(_) => "E".to_string(),
            }
        }) {
            Some(s) => s,
            None => "P".to_string(),
        };
    }

    format!(
        "it={};mr={};st={};raw={};res={};rk={};hl={};ws={};cv={}",
        enc_bytes(it.as_bytes()),
        match &mr {
            None => "N".to_string(),
            Some(v) => enc_pairs(v),
        },
        st,
        raw,
        res,
        rk,
        hl,
        ws,
        cv
    )
}
