//! C20, end-state stream: the real `Previewer` driven the way `Model::draw_preview` drives it — the index
//! passed is the item's own index, so re-selecting an item yields the SAME expanded command — judged on the
//! final pane only.   case = `E~<delay_ms>|<op> <op> ...`   op = r<item>[f] (item 0 = no current item, f = forced) | w<ms>
//! answer = `final=<enc first pane line>`
use crate::util::*;
use skim::prelude::*;
use skim::verif::sched;
use skim::verif::Previewer;
use std::time::{Duration, Instant};

struct It(usize);
impl SkimItem for It {
    fn text(&self) -> Cow<str> {
        Cow::Borrowed("it") // the same listed text for every item; `output()` tells them apart
    }
    fn output(&self) -> Cow<str> {
        Cow::Owned(format!("it{}", self.0))
    }
}

fn settle(sent: u64, limit_ms: u64) -> bool {
    let deadline = Instant::now() + Duration::from_millis(limit_ms);
    loop {
        let got = sched::count("pv.recv") + sched::count("pv.tryrecv");
        if got >= sent
            && sched::count("pv.idle") == sched::count("pv.recv") + 1
            && sched::count("pv.spawned") == sched::count("pv.wexit")
        {
            return true;
        }
        if Instant::now() >= deadline {
            return false;
        }
        std::thread::sleep(Duration::from_micros(300));
    }
}

pub fn run(case: &str) -> String {
    let parts: Vec<&str> = case.split('|').collect();
    if parts.len() != 2 {
        return "error:bad-case".into();
    }
    let delay: u64 = parts[0].trim_start_matches("E~").parse().unwrap_or(10);
    std::env::set_var("SHELL", "/bin/sh");
    sched::reset();
    let secs = format!("0.{:03}", delay.min(200));
    let mut pv = Previewer::new(Some(format!("sleep {}; echo P_{{}}", secs)), || {});
    for op in parts[1].split(' ').filter(|t| !t.is_empty()) {
        if let Some(ms) = op.strip_prefix('w') {
            std::thread::sleep(Duration::from_millis(ms.parse::<u64>().unwrap_or(0).min(300)));
        } else if let Some(rest) = op.strip_prefix('r') {
            let force = rest.ends_with('f');
            let k: usize = rest.trim_end_matches('f').parse().unwrap_or(0);
            let item: Option<Arc<dyn SkimItem>> = if k == 0 { None } else { Some(Arc::new(It(k))) };
            // index = the item's own index, query / selection unchanged: only the current item changes
            pv.on_item_change(k, item, Some("q".to_string()), None, 0, || (vec![], vec![]), force);
        } else {
            return "error:bad-op".into();
        }
    }
    let ok = settle(sched::count("pv.send"), 6000);
    let content = pv.verif_content();
    let first = content.first().cloned().unwrap_or_default();
    format!("final={}{}", enc_str(&first), if ok { "" } else { " settle-timeout" })
}
