//! line-protocol helpers (mirror of lean/SkimModel/Driver/Util.lean)

pub fn dec_str(s: &str) -> String {
    if s == "-" || s.is_empty() {
        return String::new();
    }
    s.split('.')
        .filter_map(|t| t.parse::<u32>().ok())
        .filter_map(std::char::from_u32)
        .collect()
}

pub fn enc_str(s: &str) -> String {
    if s.is_empty() {
        return "-".to_string();
    }
    s.chars().map(|c| (c as u32).to_string()).collect::<Vec<_>>().join(".")
}

pub fn dec_list(s: &str) -> Vec<String> {
    if s == "_" || s.is_empty() {
        return vec![];
    }
    s.split(',').map(dec_str).collect()
}

pub fn dec_nats(s: &str) -> Vec<usize> {
    if s == "_" || s.is_empty() {
        return vec![];
    }
    s.split(',').filter_map(|t| t.parse().ok()).collect()
}

pub fn enc_nats<T: ToString>(v: &[T]) -> String {
    if v.is_empty() {
        return "_".to_string();
    }
    v.iter().map(|x| x.to_string()).collect::<Vec<_>>().join(",")
}

pub fn dec_bytes(s: &str) -> Vec<u8> {
    if s == "-" || s.is_empty() {
        return vec![];
    }
    (0..s.len() / 2).filter_map(|i| u8::from_str_radix(&s[2 * i..2 * i + 2], 16).ok()).collect()
}

pub fn enc_bytes(b: &[u8]) -> String {
    if b.is_empty() {
        return "-".to_string();
    }
    b.iter().map(|x| format!("{:02x}", x)).collect()
}
