//! Recording canvas: an in-memory implementation of tuikit's public `Canvas` trait that stores
//! (char, Attr) per cell.  Reusable by every property that observes what a widget draws.
//!
//! Semantics follow tuikit's own `Screen`/`BoundedCanvas`: a write outside the area is accepted
//! (`Ok`) and ignored, the returned width is the display width of the character; a wide
//! character occupies its cell and marks the following cell as a continuation (`'\0'`, where
//! `Screen` stores a blank); like `Screen`, a wide character whose second cell would fall outside
//! the row is not stored at all.  Zero-width characters are stored like width-1 characters.
#![allow(dead_code)]
use tuikit::attr::Attr;
use tuikit::canvas::Canvas;
use tuikit::cell::Cell;
use unicode_width::UnicodeWidthChar;

pub type Res<T> = tuikit::Result<T>;

#[derive(Clone)]
pub struct RecCanvas {
    pub width: usize,
    pub height: usize,
    /// row-major, `height * width` cells
    pub cells: Vec<(char, Attr)>,
    /// number of `put_cell` calls that fell outside the area (never stored)
    pub out_of_area: usize,
    /// number of `clear` calls
    pub clears: usize,
    pub cursor: Option<(usize, usize)>,
    pub cursor_shown: bool,
}

impl RecCanvas {
    pub fn new(width: usize, height: usize) -> Self {
        RecCanvas {
            width,
            height,
            cells: vec![(' ', Attr::default()); width * height],
            out_of_area: 0,
            clears: 0,
            cursor: None,
            cursor_shown: false,
        }
    }

    pub fn cell(&self, row: usize, col: usize) -> Option<(char, Attr)> {
        if row < self.height && col < self.width {
            Some(self.cells[row * self.width + col])
        } else {
            None
        }
    }

    pub fn ch(&self, row: usize, col: usize) -> char {
        self.cell(row, col).map(|c| c.0).unwrap_or(' ')
    }

    /// characters of `row` from column `from` on (continuation cells of wide characters skipped),
    /// trailing blanks removed
    pub fn row_text(&self, row: usize, from: usize) -> String {
        let mut s = String::new();
        for col in from..self.width {
            let c = self.ch(row, col);
            if c != '\0' {
                s.push(c);
            }
        }
        s.trim_end_matches(' ').to_string()
    }

    pub fn row_cells(&self, row: usize) -> Vec<(char, Attr)> {
        (0..self.width).filter_map(|c| self.cell(row, c)).collect()
    }
}

impl Canvas for RecCanvas {
    fn size(&self) -> Res<(usize, usize)> {
        Ok((self.width, self.height))
    }

    fn clear(&mut self) -> Res<()> {
        self.clears += 1;
        for c in self.cells.iter_mut() {
            *c = (' ', Attr::default());
        }
        Ok(())
    }

    fn put_cell(&mut self, row: usize, col: usize, cell: Cell) -> Res<usize> {
        let w = cell.ch.width().unwrap_or(2);
        if row >= self.height || col >= self.width {
            self.out_of_area += 1;
            return Ok(w);
        }
        if w > 1 {
            if col + 1 < self.width {
                self.cells[row * self.width + col] = (cell.ch, cell.attr);
                self.cells[row * self.width + col + 1] = ('\0', cell.attr);
            } else {
                self.out_of_area += 1;
            }
        } else {
            self.cells[row * self.width + col] = (cell.ch, cell.attr);
        }
        Ok(w)
    }

    fn set_cursor(&mut self, row: usize, col: usize) -> Res<()> {
        self.cursor = Some((row, col));
        Ok(())
    }

    fn show_cursor(&mut self, show: bool) -> Res<()> {
        self.cursor_shown = show;
        Ok(())
    }
}
