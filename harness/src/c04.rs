//! C04: a composed query against texts, through the PUBLIC `AndOrEngineFactory`.
//! case = `<exact 0|1>;<case s|r|i>;<algo 1|2|c>;<query>;<text>,<text>,...;<expected ast or ?>`
//! answer = `<structure>;<verdict bits>`; the structure is the engine tree recovered from `Display`:
//!   `O:` alternatives joined by `/`, terms joined by `+`, each term canonicalised as in C03;
//!   `V:<term>` when the factory returned a bare term engine (blank-only query);
//!   any other shape (nested Or inside And, unparsable text) is rendered so that it cannot equal
//!   a model answer (`N(..)` / `U:..`).
use crate::c03::{canon_term, parse_algo, parse_case, verdict};
use crate::util::*;
use skim::prelude::*;

/// length of the leaf engine text at the start of `s` (`Noop`, `(Fuzzy: ..)`, `(Exact|..)`, `(Regex: ..)`)
fn leaf_len(s: &str) -> Option<usize> {
    if s.starts_with("Noop") {
        return Some(4);
    }
    if s.starts_with("(Fuzzy: ") {
        // body has no ')' on the generated alphabet
        return s.find(')').map(|i| i + 1);
    }
    if s.starts_with("(Exact|") {
        // escape-aware: `\)` is an escaped body character, `(?i)` is the flag group
        let b = s.as_bytes();
        let mut i = "(Exact|".len();
        if b.get(i) == Some(&b'!') {
            i += 1;
        }
        if s[i..].starts_with("(?i)") {
            i += 4;
        }
        while i < b.len() {
            match b[i] {
                b'\\' => i += 2,
                b')' => return Some(i + 1),
                _ => i += 1,
            }
        }
        return None;
    }
    None
}

/// parse one engine at the start of `s`; returns (canonical text, rest)
fn parse_engine(s: &str) -> Option<(Node, &str)> {
    for (tag, is_or) in [("(Or: ", true), ("(And: ", false)] {
        if let Some(mut r) = s.strip_prefix(tag) {
            let mut kids = vec![];
            loop {
                if let Some(r2) = r.strip_prefix(')') {
                    return Some((if is_or { Node::Or(kids) } else { Node::And(kids) }, r2));
                }
                if !kids.is_empty() {
                    r = r.strip_prefix(", ")?;
                }
                let (k, r2) = parse_engine(r)?;
                kids.push(k);
                r = r2;
            }
        }
    }
    let n = leaf_len(s)?;
    if !s.is_char_boundary(n) {
        return None;
    }
    Some((Node::Leaf(canon_term(&s[..n])), &s[n..]))
}

enum Node {
    Or(Vec<Node>),
    And(Vec<Node>),
    Leaf(String),
}

fn generic(n: &Node) -> String {
    match n {
        Node::Leaf(s) => s.clone(),
        Node::Or(k) => format!("N(or {})", k.iter().map(generic).collect::<Vec<_>>().join(" ")),
        Node::And(k) => format!("N(and {})", k.iter().map(generic).collect::<Vec<_>>().join(" ")),
    }
}

pub fn canon_query(d: &str) -> String {
    match parse_engine(d) {
        Some((n, "")) => match &n {
            Node::Leaf(s) => format!("V:{}", s),
            Node::Or(alts) => {
                let mut out = vec![];
                for a in alts {
                    match a {
                        Node::And(ts) if ts.iter().all(|t| matches!(t, Node::Leaf(_))) => {
                            out.push(ts.iter().map(generic).collect::<Vec<_>>().join("+"))
                        }
                        _ => return generic(&n),
                    }
                }
                format!("O:{}", out.join("/"))
            }
            _ => generic(&n),
        },
        _ => format!("U:{}", enc_str(d)),
    }
}

pub fn run(case: &str) -> String {
    let p: Vec<&str> = case.split(';').collect();
    if p.len() != 6 {
        return "error:bad-case".into();
    }
    let exact = p[0] == "1";
    let (cm, algo) = match (parse_case(p[1]), parse_algo(p[2])) {
        (Some(c), Some(a)) => (c, a),
        _ => return "error:bad-cfg".into(),
    };
    let query = dec_str(p[3]);
    let texts = dec_list(p[4]);
    let f = AndOrEngineFactory::new(
        ExactOrFuzzyEngineFactory::builder()
            .exact_mode(exact)
            .fuzzy_algorithm(algo)
            .build(),
    );
    let e = f.create_engine_with_case(&query, cm);
    let bits: String = texts
        .iter()
        .map(|t| if verdict(e.as_ref(), t) { "1" } else { "0" })
        .collect();
    format!("{};{}", canon_query(&format!("{}", e)), bits)
}
