//! Correspondence harness: runs the real skim code in-process.
//! stdin: one request per line `<prop>\t<case>`; stdout: one answer line per request.
#[cfg(feature = "c01")]
mod c01;
#[cfg(feature = "c09")]
mod c09;
#[cfg(feature = "c10")]
mod c10;
#[cfg(feature = "c16")]
mod c16;
#[cfg(any(feature = "c08", feature = "c09", feature = "c11", feature = "c15"))]
mod canvas;
#[cfg(feature = "c13")]
mod c13;
#[cfg(feature = "c12")]
mod c12;
#[cfg(feature = "c02")]
mod c02;
#[cfg(feature = "c03")]
mod c03;
#[cfg(feature = "c04")]
mod c04;
#[cfg(feature = "c19")]
mod c19;
#[cfg(feature = "c20")]
mod c20;
#[cfg(feature = "c20")]
mod c20e;
#[cfg(feature = "c06")]
mod c06;
#[cfg(feature = "c07")]
mod c07;
#[cfg(feature = "c17")]
mod c17;
#[cfg(feature = "c11")]
mod c11;
#[cfg(feature = "c08")]
mod c08;
#[cfg(feature = "c15")]
mod c15;
#[cfg(feature = "c18")]
mod c18;
#[cfg(feature = "c01")]
mod session;
#[allow(dead_code)]
mod util;

use std::io::{BufRead, Write};
use std::panic;

fn dispatch(prop: &str, case: &str) -> String {
    match prop {
        #[cfg(feature = "c01")]
        "C01" | "C14" | "C05" | "C10S" | "C20S" | "C07S" => c01::run(case),
        #[cfg(feature = "c09")]
        "C09" => c09::run(case),
        #[cfg(feature = "c10")]
        "C10" => c10::run(case),
        #[cfg(feature = "c16")]
        "C16" => c16::run(case),
        #[cfg(feature = "c13")]
        "C13" => c13::run(case),
        #[cfg(feature = "c12")]
        "C12" => c12::run(case),
        #[cfg(feature = "c02")]
        "C02" => c02::run(case),
        #[cfg(feature = "c03")]
        "C03" => c03::run(case),
        #[cfg(feature = "c04")]
        "C04" => c04::run(case),
        #[cfg(feature = "c19")]
        "C19" => c19::run(case),
        #[cfg(feature = "c20")]
        "C20" if case.starts_with("E~") => c20e::run(case),
        #[cfg(feature = "c20")]
        "C20" => c20::run(case),
        #[cfg(feature = "c06")]
        "C06" => c06::run(case),
        #[cfg(feature = "c07")]
        "C07" => c07::run(case),
        #[cfg(feature = "c17")]
        "C17" => c17::run(case),
        #[cfg(feature = "c11")]
        "C11" => c11::run(case),
        #[cfg(feature = "c08")]
        "C08" => c08::run(case),
        #[cfg(feature = "c15")]
        "C15" => c15::run(case),
        #[cfg(feature = "c18")]
        "C18" => c18::run(case),
        _ => "error:unknown-property".into(),
    }
}

fn main() {
    panic::set_hook(Box::new(|_| {}));
    let stdin = std::io::stdin();
    let stdout = std::io::stdout();
    let mut out = std::io::BufWriter::new(stdout.lock());
    for line in stdin.lock().lines() {
        let line = match line {
            Ok(l) => l,
            Err(_) => break,
        };
        let mut it = line.splitn(2, '\t');
        let prop = it.next().unwrap_or("").to_string();
        let case = it.next().unwrap_or("").to_string();
        let r = panic::catch_unwind(move || dispatch(&prop, &case));
        let ans = match r {
            Ok(s) => s,
            Err(e) => {
                let msg = if let Some(s) = e.downcast_ref::<String>() {
                    s.clone()
                } else if let Some(s) = e.downcast_ref::<&str>() {
                    s.to_string()
                } else {
                    "?".to_string()
                };
                format!("panic:{}", msg.replace('\t', " ").replace('\n', " "))
            }
        };
        let _ = writeln!(out, "{}", ans);
    }
    let _ = out.flush();
}
