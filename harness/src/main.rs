//! Correspondence harness: runs the real skim code in-process.
//! stdin: one request per line `<prop>\t<case>`; stdout: one answer line per request.
mod c01;
mod c09;
mod c10;
mod c16;
mod canvas;
mod c13;
mod c12;
mod c02;
mod c03;
mod c04;
mod c19;
mod c20;
mod c20e;
mod c06;
mod c07;
mod c17;
mod c11;
mod c08;
mod c15;
mod c18;
mod session;
mod util;

use std::io::{BufRead, Write};
use std::panic;

fn dispatch(prop: &str, case: &str) -> String {
    match prop {
        "C01" | "C14" | "C05" | "C10S" | "C20S" => c01::run(case),
        "C09" => c09::run(case),
        "C10" => c10::run(case),
        "C16" => c16::run(case),
        "C13" => c13::run(case),
        "C12" => c12::run(case),
        "C02" => c02::run(case),
        "C03" => c03::run(case),
        "C04" => c04::run(case),
        "C19" => c19::run(case),
        "C20" if case.starts_with("E~") => c20e::run(case),
        "C20" => c20::run(case),
        "C06" => c06::run(case),
        "C07" => c07::run(case),
        "C17" => c17::run(case),
        "C11" => c11::run(case),
        "C08" => c08::run(case),
        "C15" => c15::run(case),
        "C18" => c18::run(case),
        _ => "error:unknown-property".into(),
    }
}

fn main() {
    panic::set_hook(Box::new(|_| {}));
    let stdin = std::io::stdin();
    let stdout = std::io::stdout();
    let mut out = std::io::BufWriter::new(stdout.lock());
    for line in stdin.lock().lines() {
        let line = match line {
            Ok(l) => l,
            Err(_) => break,
        };
        let mut it = line.splitn(2, '\t');
        let prop = it.next().unwrap_or("").to_string();
        let case = it.next().unwrap_or("").to_string();
        let r = panic::catch_unwind(move || dispatch(&prop, &case));
        let ans = match r {
            Ok(s) => s,
            Err(e) => {
                let msg = if let Some(s) = e.downcast_ref::<String>() {
                    s.clone()
                } else if let Some(s) = e.downcast_ref::<&str>() {
                    s.to_string()
                } else {
                    "?".to_string()
                };
                format!("panic:{}", msg.replace('\t', " ").replace('\n', " "))
            }
        };
        let _ = writeln!(out, "{}", ans);
    }
    let _ = out.flush();
}
