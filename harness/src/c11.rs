//! C11: what `Draw::draw` of the real `Selection` paints on a recording canvas.
//!
//! case   = `<rev 0|1>,<tabstop>,<no_hscroll 0|1>,<keep_right 0|1>,<skip char code point, 0 = none>,<theme>|<op> <op> ...`
//! theme  = dark | bw | molokai | light | 16 | c1 | c2        (turned into a `--color` value below)
//! ops    = a:<item>;<item>;...   append a batch; item = `<item_idx>/<text>/<match>`
//!                                text = dot-separated code points (`-` = empty)
//!                                match = n | c<i>,<i>,.. (`c_` = empty list) | b<start>,<end>
//!          u:K d:K pu:K pd:K hu:K hd:K (i32)   r:N (click on row N)   sl:K sr:K (scroll left/right)
//!          t (toggle)  ta (toggle all)  sa (select all)  da (deselect all)  c (clear)
//!          w:W,H       draw on a fresh W x H recording canvas
//! answer = `H:<run>:<normal>:<matched>:<current>:<current_match>:<cursor>:<selected>` (the attributes the
//!          theme object hands out) followed by one token per op:
//!            `s<ic>,<lc>,<h>,<n>,<number selected>`                      after a non-draw op
//!            `D<ic>,<lc>,<h>,<n>,<nsel>,<out_of_area>,<clears>;<keys>;<grid>`   after a draw
//!          keys = the selected keys `<run>.<item_idx>` in map order joined by `,` (`_` = none)
//!          grid = rows top to bottom joined by `/` (`-` when there is no row); a row is `.` when every
//!          cell is a blank with the default attribute, otherwise its cells up to the last such non-blank
//!          one, as runs `<attr>=<cp>.<cp>...` joined by `,`; attr = `<fg>_<bg>_<effect bits>`,
//!          colour = d | <ansi value> | r<r>-<g>-<b>; code point 0 = second half of a wide character.
//!          A panic inside an op ends the answer with `panic!<message>`.
use crate::canvas::RecCanvas;
use crate::util::dec_str;
use skim::prelude::*;
use skim::verif::{mark_new_run, ColorTheme, Event, EventHandler, MatchedItem, Selection};
use skim::MatchRange;
use std::panic::{catch_unwind, AssertUnwindSafe};
use std::sync::Arc;
use tuikit::attr::{Attr, Color, Effect};
use tuikit::prelude::Draw;

static CASE_NO: std::sync::atomic::AtomicUsize = std::sync::atomic::AtomicUsize::new(0);

enum Op {
    /// `mark_new_run` of command string number k (canonical run number k + 1; the case starts in run 0)
    Run(u32),
    Ev(Event),
    Append(Vec<(u32, String, Option<MatchRange>)>),
    Clear,
    Draw(usize, usize),
}

fn parse_item(t: &str) -> Option<(u32, String, Option<MatchRange>)> {
    let f: Vec<&str> = t.split('/').collect();
    if f.len() != 3 {
        return None;
    }
    let idx = f[0].parse::<u32>().ok()?;
    let text = dec_str(f[1]);
    let m = f[2];
    let mr = if m == "n" {
        None
    } else if let Some(rest) = m.strip_prefix('c') {
        if rest == "_" {
            Some(MatchRange::Chars(vec![]))
        } else {
            let mut v = Vec::new();
            for x in rest.split(',') {
                v.push(x.parse::<usize>().ok()?);
            }
            Some(MatchRange::Chars(v))
        }
    } else if let Some(rest) = m.strip_prefix('b') {
        let p: Vec<&str> = rest.split(',').collect();
        if p.len() != 2 {
            return None;
        }
        Some(MatchRange::ByteRange(p[0].parse().ok()?, p[1].parse().ok()?))
    } else {
        return None;
    };
    Some((idx, text, mr))
}

fn parse_op(t: &str) -> Option<Op> {
    let (name, arg) = match t.find(':') {
        Some(i) => (&t[..i], Some(&t[i + 1..])),
        None => (t, None),
    };
    let int = |a: Option<&str>| -> Option<i32> { a?.parse::<i32>().ok() };
    let nat = |a: Option<&str>| -> Option<usize> { a?.parse::<usize>().ok() };
    Some(match name {
        "u" => Op::Ev(Event::EvActUp(int(arg)?)),
        "d" => Op::Ev(Event::EvActDown(int(arg)?)),
        "pu" => Op::Ev(Event::EvActPageUp(int(arg)?)),
        "pd" => Op::Ev(Event::EvActPageDown(int(arg)?)),
        "hu" => Op::Ev(Event::EvActHalfPageUp(int(arg)?)),
        "hd" => Op::Ev(Event::EvActHalfPageDown(int(arg)?)),
        "r" => Op::Ev(Event::EvActSelectRow(nat(arg)?)),
        "sl" => Op::Ev(Event::EvActScrollLeft(int(arg)?)),
        "sr" => Op::Ev(Event::EvActScrollRight(int(arg)?)),
        "t" if arg.is_none() => Op::Ev(Event::EvActToggle),
        "ta" if arg.is_none() => Op::Ev(Event::EvActToggleAll),
        "sa" if arg.is_none() => Op::Ev(Event::EvActSelectAll),
        "da" if arg.is_none() => Op::Ev(Event::EvActDeselectAll),
        "c" if arg.is_none() => Op::Clear,
        "a" => {
            let a = arg?;
            let mut v = Vec::new();
            for it in a.split(';').filter(|s| !s.is_empty()) {
                v.push(parse_item(it)?);
            }
            Op::Append(v)
        }
        "rn" => Op::Run(arg?.parse().ok()?),
        "w" => {
            let p: Vec<&str> = arg?.split(',').collect();
            if p.len() != 2 {
                return None;
            }
            Op::Draw(p[0].parse().ok()?, p[1].parse().ok()?)
        }
        _ => return None,
    })
}

fn color(c: Color) -> String {
    match c {
        Color::Default => "d".to_string(),
        Color::AnsiValue(n) => n.to_string(),
        Color::Rgb(r, g, b) => format!("r{}-{}-{}", r, g, b),
        _ => "?".to_string(),
    }
}

fn attr(a: &Attr) -> String {
    let mut e = 0;
    for (bit, f) in [
        (1, Effect::BOLD),
        (2, Effect::DIM),
        (4, Effect::UNDERLINE),
        (8, Effect::BLINK),
        (16, Effect::REVERSE),
    ] {
        if a.effect.contains(f) {
            e |= bit;
        }
    }
    format!("{}_{}_{}", color(a.fg), color(a.bg), e)
}

fn grid(c: &RecCanvas) -> String {
    if c.height == 0 {
        return "-".to_string();
    }
    let dflt = Attr::default();
    let mut rows = Vec::new();
    for r in 0..c.height {
        let cells = c.row_cells(r);
        let mut last = 0; // number of cells kept
        for (i, (ch, a)) in cells.iter().enumerate() {
            if !(*ch == ' ' && *a == dflt) {
                last = i + 1;
            }
        }
        if last == 0 {
            rows.push(".".to_string());
            continue;
        }
        let mut runs: Vec<String> = Vec::new();
        let mut cur_attr: Option<Attr> = None;
        let mut cur = String::new();
        for (ch, a) in cells[..last].iter() {
            if cur_attr != Some(*a) {
                if cur_attr.is_some() {
                    runs.push(cur.clone());
                }
                cur = format!("{}={}", attr(a), *ch as u32);
                cur_attr = Some(*a);
            } else {
                cur.push('.');
                cur.push_str(&(*ch as u32).to_string());
            }
        }
        runs.push(cur);
        rows.push(runs.join(","));
    }
    rows.join("/")
}

fn state(sel: &Selection) -> String {
    let (ic, lc, h) = sel.verif_cursor();
    format!("{},{},{},{},{}", ic, lc, h, sel.get_num_options(), sel.get_num_selected())
}

fn theme_option(name: &str) -> Option<Option<&'static str>> {
    Some(match name {
        "dark" => None,
        "bw" => Some("bw"),
        "molokai" => Some("molokai"),
        "light" => Some("light"),
        "16" => Some("16"),
        "c1" => Some("fg:1,bg:2,matched:3,matched_bg:4,current:5,current_bg:6,current_match:7,current_match_bg:8,cursor:9,selected:10"),
        "c2" => Some("bw,fg:1,current_bg:6,matched_bg:4,selected:#0a141e"),
        _ => return None,
    })
}

pub fn run(case: &str) -> String {
    let parts: Vec<&str> = case.split('|').collect();
    if parts.len() != 2 {
        return "error:bad-case".into();
    }
    let cfg: Vec<&str> = parts[0].split(',').collect();
    if cfg.len() != 6 {
        return "error:bad-config".into();
    }
    // 1 = --layout=reverse, 2 = --layout=reverse-list (the list widget treats both as top-down)
    let rev = cfg[0] == "1" || cfg[0] == "2";
    let layout_name = if cfg[0] == "2" { "reverse-list" } else { "reverse" };
    let tabstop = cfg[1].to_string();
    let no_hscroll = cfg[2] == "1";
    let keep_right = cfg[3] == "1";
    let skip = match cfg[4].parse::<u32>() {
        Ok(0) => String::new(),
        Ok(n) => match std::char::from_u32(n) {
            Some(c) => regex::escape(&c.to_string()),
            None => return "error:bad-config".into(),
        },
        Err(_) => return "error:bad-config".into(),
    };
    let color_opt = match theme_option(cfg[5]) {
        Some(o) => o,
        None => return "error:bad-theme".into(),
    };
    let mut ops = Vec::new();
    for t in parts[1].split(' ').filter(|t| !t.is_empty()) {
        match parse_op(t) {
            Some(o) => ops.push(o),
            None => return "error:bad-op".into(),
        }
    }
    let mut options = SkimOptionsBuilder::default().build().unwrap();
    options.multi = true;
    if rev {
        options.layout = layout_name;
    }
    options.tabstop = Some(&tabstop);
    options.no_hscroll = no_hscroll;
    options.keep_right = keep_right;
    options.skip_to_pattern = &skip;
    options.color = color_opt;
    let theme = ColorTheme::init_from_options(&options);
    let mut sel = Selection::with_options(&options).theme(Arc::new(theme));
    // run numbers are process-global: every case starts in a fresh run (canonical number 0); the command strings
    // `rn:k` names get canonical number k + 1 — their REAL numbers may be lower than the current one (a command
    // string used by an earlier case gets its old number back, exactly as when a user returns to an earlier command)
    let case_no = CASE_NO.fetch_add(1, std::sync::atomic::Ordering::SeqCst);
    let init_run = mark_new_run(&format!("c11-init-{}-{}", std::process::id(), case_no));
    let mut canon: std::collections::HashMap<u32, u32> = std::collections::HashMap::new();
    canon.insert(init_run, 0);
    let mut out = vec![format!(
        "H:{}:{}:{}:{}:{}:{}:{}",
        0,
        attr(&theme.normal()),
        attr(&theme.matched()),
        attr(&theme.current()),
        attr(&theme.current_match()),
        attr(&theme.cursor()),
        attr(&theme.selected())
    )];
    for op in ops {
        if let Op::Run(k) = &op {
            let real = mark_new_run(&format!("c11-run-{}", k));
            canon.insert(real, k + 1);
            out.push(format!("s{}", state(&sel)));
            continue;
        }
        let canon_ref = &canon;
        let r = catch_unwind(AssertUnwindSafe(|| match &op {
            Op::Run(_) => String::new(),
            Op::Ev(ev) => {
                let _ = sel.handle(ev);
                format!("s{}", state(&sel))
            }
            Op::Append(batch) => {
                let base = sel.get_num_options();
                let items: Vec<MatchedItem> = batch
                    .iter()
                    .enumerate()
                    .map(|(j, (idx, text, mr))| MatchedItem {
                        item: Arc::new(text.clone()),
                        rank: [(base + j) as i32, 0, 0, 0],
                        matched_range: match mr {
                            None => None,
                            Some(MatchRange::Chars(v)) => Some(MatchRange::Chars(v.clone())),
                            Some(MatchRange::ByteRange(a, b)) => Some(MatchRange::ByteRange(*a, *b)),
                        },
                        item_idx: *idx,
                    })
                    .collect();
                sel.append_sorted_items(items);
                format!("s{}", state(&sel))
            }
            Op::Clear => {
                sel.clear();
                format!("s{}", state(&sel))
            }
            Op::Draw(w, h) => {
                let mut c = RecCanvas::new(*w, *h);
                match sel.draw(&mut c) {
                    Ok(()) => {
                        let mut keys: Vec<(u32, u32)> = sel
                            .verif_selected_keys()
                            .iter()
                            .map(|(r, i)| (*canon_ref.get(r).unwrap_or(&999_999), *i))
                            .collect();
                        keys.sort();
                        let keys = if keys.is_empty() {
                            "_".to_string()
                        } else {
                            keys.iter().map(|(r, i)| format!("{}.{}", r, i)).collect::<Vec<_>>().join(",")
                        };
                        format!("D{},{},{};{};{}", state(&sel), c.out_of_area, c.clears, keys, grid(&c))
                    }
                    Err(e) => format!("draw-error:{}", e.to_string().replace(' ', "_")),
                }
            }
        }));
        match r {
            Ok(tok) => out.push(tok),
            Err(e) => {
                let msg = if let Some(s) = e.downcast_ref::<String>() {
                    s.clone()
                } else if let Some(s) = e.downcast_ref::<&str>() {
                    s.to_string()
                } else {
                    "?".to_string()
                };
                out.push(format!(
                    "panic!{}",
                    msg.replace(|c: char| c == ' ' || c == '\t' || c == '\n', "_")
                ));
                break;
            }
        }
    }
    out.join(" ")
}
