//! C06: (lib) the real `SkimItemReader::of_bufread` on a source that hands out the stream in
//! caller-chosen slices; (cli) the real `sk -f` filter mode through pipes.
//! Case format: see lean/SkimModel/Driver/C06.lean.
use crate::util::*;
use skim::prelude::*;
use std::io::{BufRead, Read, Write};
use std::process::{Command, Stdio};
use std::sync::mpsc;
use std::time::Duration;

/// a `BufRead` whose `fill_buf` returns exactly the slices the case asks for
struct SliceSrc {
    data: Vec<u8>,
    pos: usize,
    end: usize,
    sizes: Vec<usize>,
    idx: usize,
    term: u8,
    /// a transient error (EAGAIN on a non-blocking descriptor) is reported once by the next read
    err_pending: bool,
}

impl SliceSrc {
    fn refill(&mut self) {
        if self.pos == self.end && self.pos < self.data.len() {
            // read size 0 = the source has nothing right now: ONE transient error, then reading goes on.  Only BETWEEN lines
            // (the unchanged reader drops what it has read of a line when the read fails; that is not this property's subject)
            if !self.sizes.is_empty() && self.sizes[self.idx % self.sizes.len()] == 0 && (self.pos == 0 || self.data[self.pos - 1] == self.term) {
                self.err_pending = true;
                self.idx += 1;
            }
            let k = if self.sizes.is_empty() {
                self.data.len() + 1
            } else {
                std::cmp::max(1, self.sizes[self.idx % self.sizes.len()])
            };
            self.idx += 1;
            self.end = std::cmp::min(self.pos + k, self.data.len());
        }
    }
}

impl Read for SliceSrc {
    fn read(&mut self, buf: &mut [u8]) -> std::io::Result<usize> {
        self.refill();
        if self.err_pending {
            self.err_pending = false;
            return Err(std::io::Error::new(std::io::ErrorKind::WouldBlock, "transient"));
        }
        let n = std::cmp::min(buf.len(), self.end - self.pos);
        buf[..n].copy_from_slice(&self.data[self.pos..self.pos + n]);
        self.pos += n;
        Ok(n)
    }
}

impl BufRead for SliceSrc {
    fn fill_buf(&mut self) -> std::io::Result<&[u8]> {
        self.refill();
        if self.err_pending {
            self.err_pending = false;
            return Err(std::io::Error::new(std::io::ErrorKind::WouldBlock, "transient"));
        }
        Ok(&self.data[self.pos..self.end])
    }
    fn consume(&mut self, amt: usize) {
        self.pos = std::cmp::min(self.pos + amt, self.end);
    }
}

struct Case {
    lvl: String,
    term: u8,
    print0: bool,
    ansi: bool,
    with_nth: Option<String>,
    nth: Option<String>,
    delim: Option<String>,
    query: String,
    reads: Vec<usize>,
    close: Option<usize>,
    stream: Vec<u8>,
}

fn opt_field(s: &str) -> Option<String> {
    if s == "_" {
        None
    } else {
        Some(s.to_string())
    }
}

fn parse(case: &str) -> Option<Case> {
    let parts: Vec<&str> = case.split('|').collect();
    if parts.len() != 2 {
        return None;
    }
    let hd: Vec<&str> = parts[0].split(';').collect();
    if hd.len() != 10 {
        return None;
    }
    let mut stream = vec![];
    for t in parts[1].split(' ').filter(|t| !t.is_empty()) {
        stream.extend(dec_bytes(t));
    }
    Some(Case {
        lvl: hd[0].to_string(),
        term: hd[1].parse().ok()?,
        print0: hd[2] == "1",
        ansi: hd[3] == "1",
        with_nth: opt_field(hd[4]),
        nth: opt_field(hd[5]),
        delim: opt_field(hd[6]).map(|h| String::from_utf8_lossy(&dec_bytes(&h)).to_string()),
        query: String::from_utf8_lossy(&dec_bytes(hd[7])).to_string(),
        reads: dec_nats(hd[8]),
        close: hd[9].parse().ok(),
        stream,
    })
}

/// lvl `rdr`: the real `Reader` / `ReaderControl` (src/reader.rs) with a producer thread: `reads` = trials, items per trial.
/// Whenever `is_done()` answers true nothing may be left in the hand-over buffer, and every item sent is taken exactly once.
fn run_rdr(c: Case) -> String {
    use skim::verif::Reader;
    let trials = *c.reads.first().unwrap_or(&50);
    let n = *c.reads.get(1).unwrap_or(&3);
    const WATCHERS: usize = 24;
    let (mut stale, mut lost) = (0usize, 0usize);
    for trial in 0..trials {
        let (tx, rx) = crossbeam::channel::unbounded::<Arc<dyn SkimItem>>();
        let options = SkimOptionsBuilder::default().build().unwrap();
        let mut reader = Reader::with_options(&options).source(Some(rx));
        let ctrl = Arc::new(reader.run(""));
        // pollers: like the heart beat, each asks is_done() and, once the answer is yes, looks at what is still buffered
        let watchers: Vec<_> = (0..WATCHERS)
            .map(|_| {
                let ctrl = ctrl.clone();
                std::thread::spawn(move || {
                    let deadline = std::time::Instant::now() + Duration::from_secs(10);
                    loop {
                        if ctrl.is_done() {
                            return ctrl.take().len();
                        }
                        if std::time::Instant::now() > deadline {
                            return usize::MAX;
                        }
                    }
                })
            })
            .collect();
        // the source: a short pause, then its last lines, then end of input
        std::thread::sleep(Duration::from_millis(1 + (trial % 4) as u64));
        for i in 0..n {
            let _ = tx.send(Arc::new(i.to_string()) as Arc<dyn SkimItem>);
        }
        drop(tx);
        std::thread::sleep(Duration::from_millis(4));
        let mut got = 0usize;
        let deadline = std::time::Instant::now() + Duration::from_secs(10);
        while !ctrl.is_done() {
            got += ctrl.take().len();
            if std::time::Instant::now() > deadline {
                return "error:reader-never-done".into();
            }
        }
        for w in watchers {
            match w.join() {
                Ok(usize::MAX) => return "error:reader-never-done".into(),
                Ok(left) => {
                    if left > 0 {
                        stale += 1;
                        got += left;
                    }
                }
                Err(_) => return "error:watcher-panicked".into(),
            }
        }
        let rest = ctrl.take().len();
        if rest > 0 {
            stale += 1;
        }
        got += rest;
        if got != n {
            lost += 1;
        }
    }
    format!("stale={} miscounted={}", stale, lost)
}

fn run_lib(c: Case) -> String {
    let mut opt = SkimItemReaderOption::default().ansi(c.ansi).line_ending(c.term);
    if let Some(d) = &c.delim {
        opt = opt.delimiter(d);
    }
    if let Some(w) = &c.with_nth {
        opt = opt.with_nth(w);
    }
    if let Some(n) = &c.nth {
        opt = opt.nth(n);
    }
    let reader = SkimItemReader::new(opt.build());
    let src = SliceSrc { data: c.stream, pos: 0, end: 0, sizes: c.reads, idx: 0, term: c.term, err_pending: false };
    let rx = reader.of_bufread(src);
    let mut out = vec![];
    let limit = c.close.unwrap_or(usize::MAX);
    while out.len() < limit {
        match rx.recv_timeout(Duration::from_secs(20)) {
            Ok(item) => {
                let text = if c.with_nth.is_some() { "?".to_string() } else { enc_bytes(item.text().as_bytes()) };
                out.push(format!("{}:{}", text, enc_bytes(item.output().as_bytes())));
            }
            Err(crossbeam::channel::RecvTimeoutError::Disconnected) => break,
            Err(crossbeam::channel::RecvTimeoutError::Timeout) => return "error:timeout".into(),
        }
    }
    drop(rx); // the consumer goes away (possibly early)
    if out.is_empty() {
        "_".into()
    } else {
        out.join(" ")
    }
}


fn sk_bin() -> Option<String> {
    // built by the runner (vlib/core.py build_sk: dev profile without debug assertions — a plain debug build of `sk`
    // dies in clap's own debug assertions) and handed over in VERIF_SK_BIN
    match std::env::var("VERIF_SK_BIN") {
        Ok(p) if std::path::Path::new(&p).exists() => Some(p),
        _ => None,
    }
}

fn run_cli(c: Case) -> String {
    let bin = match sk_bin() {
        Some(b) => b,
        None => return "error:sk-binary-not-built".into(),
    };
    let mut cmd = Command::new(bin);
    cmd.arg("-f").arg(&c.query);
    if c.term == 0 {
        cmd.arg("--read0");
    } else if c.term != 10 {
        return "error:cli-term".into();
    }
    if c.print0 {
        cmd.arg("--print0");
    }
    if c.ansi {
        cmd.arg("--ansi");
    }
    if let Some(w) = &c.with_nth {
        cmd.arg(format!("--with-nth={}", w));
    }
    if let Some(n) = &c.nth {
        cmd.arg(format!("--nth={}", n));
    }
    if let Some(d) = &c.delim {
        cmd.arg(format!("--delimiter={}", d));
    }
    cmd.env_remove("SKIM_DEFAULT_OPTIONS")
        .env_remove("SKIM_DEFAULT_COMMAND")
        .env_remove("RUST_LOG")
        .stdin(Stdio::piped())
        .stdout(Stdio::piped())
        .stderr(Stdio::null());
    let mut child = match cmd.spawn() {
        Ok(c) => c,
        Err(_) => return "error:spawn".into(),
    };
    let mut stdin = child.stdin.take().unwrap();
    let mut stdout = child.stdout.take().unwrap();
    let data = c.stream.clone();
    let reads = c.reads.clone();
    let writer = std::thread::spawn(move || {
        // write in the slices of the case, so that pipe reads see partial lines
        let mut pos = 0;
        let mut i = 0;
        while pos < data.len() {
            let k = if reads.is_empty() { data.len() } else { std::cmp::max(1, reads[i % reads.len()]) };
            i += 1;
            let end = std::cmp::min(pos + k, data.len());
            if stdin.write_all(&data[pos..end]).is_err() {
                break;
            }
            let _ = stdin.flush();
            pos = end;
        }
        drop(stdin);
    });
    let close = c.close;
    let (tx, rx) = mpsc::channel();
    std::thread::spawn(move || {
        let mut out = vec![];
        match close {
            None => {
                let _ = stdout.read_to_end(&mut out);
            }
            Some(k) => {
                let mut buf = vec![0u8; 1];
                while out.len() < k {
                    match stdout.read(&mut buf) {
                        Ok(0) | Err(_) => break,
                        Ok(_) => out.push(buf[0]),
                    }
                }
            }
        }
        drop(stdout); // the consumer closes the pipe
        let _ = tx.send(out);
    });
    let out = match rx.recv_timeout(Duration::from_secs(30)) {
        Ok(o) => o,
        Err(_) => {
            let _ = child.kill();
            let _ = child.wait();
            return "error:timeout".into();
        }
    };
    // wait for the exit (bounded)
    let mut rc: Option<i32> = None;
    for _ in 0..3000 {
        match child.try_wait() {
            Ok(Some(st)) => {
                rc = Some(st.code().unwrap_or(-1));
                break;
            }
            Ok(None) => std::thread::sleep(Duration::from_millis(if close.is_some() { 2 } else { 1 })),
            Err(_) => break,
        }
    }
    if rc.is_none() {
        let _ = child.kill();
        let _ = child.wait();
        return "error:sk-did-not-exit".into();
    }
    let _ = writer.join();
    match close {
        None => format!("rc={};{}", rc.unwrap(), enc_bytes(&out)),
        Some(_) => {
            // only "terminates without a crash" is claimed for the exit status
            let code = rc.unwrap();
            if code == 0 || code == 1 {
                format!("rc=*;{}", enc_bytes(&out))
            } else {
                format!("rc={};{}", code, enc_bytes(&out))
            }
        }
    }
}

pub fn run(case: &str) -> String {
    match parse(case) {
        None => "error:bad-case".into(),
        Some(c) => {
            if c.lvl == "rdr" {
                run_rdr(c)
            } else if c.lvl == "lib" {
                run_lib(c)
            } else if c.lvl == "cli" {
                run_cli(c)
            } else {
                "error:bad-level".into()
            }
        }
    }
}
