//! C10 (selection-set level): drive the real `Selection` with op sequences.
//!
//! case: `<multi>;<nosort>;<tac>;<first_n|->;<preset item ids|_>|op op ...` (see lean/SkimModel/Driver/C10.lean)
//!
//! Run numbers: `global::mark_new_run` keeps a process-wide table, so the numbers a case gets depend on
//! what ran before in this process.  Every case therefore uses fresh command strings
//! (`verif-c10-<case counter>-<name>`) and first registers a base string: the numbers handed out afterwards
//! are `base+1, base+2, ..` in order of first use, and are printed relative to `base` (the empty command is
//! run 0 and is printed as 0).  Order between run numbers is unchanged by this translation.
use crate::util::*;
use skim::prelude::*;
use skim::verif::{current_run_num, mark_new_run, Event, EventHandler, MatchedItem, Selection};
use std::rc::Rc;
use std::sync::atomic::{AtomicUsize, Ordering};
use std::sync::Arc;

static CASE_NO: AtomicUsize = AtomicUsize::new(0);

fn text_of(item: usize) -> String {
    format!("t{}", item)
}

fn item_of(text: &str) -> String {
    // texts are "t<n>"; anything else is shown as "?<text as code points>"
    match text.strip_prefix('t').and_then(|n| n.parse::<usize>().ok()) {
        Some(n) => n.to_string(),
        None => format!("?{}", enc_str(text)),
    }
}

fn matched(idx: u32, item: usize, rank: i32) -> MatchedItem {
    MatchedItem {
        item: Arc::new(text_of(item)),
        rank: [rank, 0, 0, 0],
        matched_range: None,
        item_idx: idx,
    }
}

fn rel(run: u32, base: u32) -> u32 {
    if run == 0 {
        0
    } else {
        run.wrapping_sub(base)
    }
}

fn obs(sel: &Selection, base: u32, acc: Option<(Vec<usize>, Vec<Arc<dyn SkimItem>>)>) -> String {
    let selected = sel.verif_selected();
    let triples = if selected.is_empty() {
        "_".to_string()
    } else {
        selected
            .iter()
            .map(|((r, i), t)| format!("{}.{}.{}", rel(*r, base), i, item_of(t)))
            .collect::<Vec<_>>()
            .join(",")
    };
    let acc = match acc {
        None => "-".to_string(),
        Some((idxs, items)) => {
            let its: Vec<String> = items.iter().map(|it| item_of(&it.text())).collect();
            format!("{}:{}", enc_nats(&idxs), if its.is_empty() { "_".to_string() } else { its.join(",") })
        }
    };
    format!("{};{};{}", sel.get_num_selected(), triples, acc)
}

pub fn run(case: &str) -> String {
    let parts: Vec<&str> = case.split('|').collect();
    if parts.len() != 2 {
        return "error:bad-case".into();
    }
    let hd: Vec<&str> = parts[0].split(';').collect();
    if hd.len() != 5 {
        return "error:bad-case".into();
    }
    let case_no = CASE_NO.fetch_add(1, Ordering::SeqCst);
    let mut options = SkimOptionsBuilder::default().build().unwrap();
    options.multi = hd[0] == "1";
    options.nosort = hd[1] == "1";
    options.tac = hd[2] == "1";
    let preset = dec_nats(hd[4]);
    if hd[3] != "-" || !preset.is_empty() {
        let first_n: usize = hd[3].parse().unwrap_or(0);
        let mut selector = DefaultSkimSelector::default().first_n(first_n);
        if !preset.is_empty() {
            selector = selector.preset(preset.iter().map(|n| text_of(*n)));
        }
        options.selector = Some(Rc::new(selector));
    }
    // the run-number table is process-wide: start from run 0 and a fresh base
    mark_new_run("");
    let base = mark_new_run(&format!("verif-c10-{}-base", case_no));
    mark_new_run("");
    let mut sel = Selection::with_options(&options);
    let mut out = vec![obs(&sel, base, None)];
    for t in parts[1].split(' ').filter(|t| !t.is_empty()) {
        let f: Vec<&str> = t.split(':').collect();
        let mut acc = None;
        match (f[0], f.len()) {
            ("run", 2) => {
                if f[1] == "-" {
                    mark_new_run("");
                } else {
                    mark_new_run(&format!("verif-c10-{}-{}", case_no, f[1]));
                }
            }
            ("clr", 1) => sel.clear(),
            ("app", 2) => {
                let mut batch = vec![];
                if f[1] != "_" {
                    for m in f[1].split(',') {
                        let p: Vec<&str> = m.split('.').collect();
                        if p.len() != 3 {
                            return "error:bad-op".into();
                        }
                        match (p[0].parse::<u32>(), p[1].parse::<usize>(), p[2].parse::<i32>()) {
                            (Ok(i), Ok(it), Ok(r)) => batch.push(matched(i, it, r)),
                            _ => return "error:bad-op".into(),
                        }
                    }
                }
                sel.append_sorted_items(batch);
            }
            ("tog", 3) | ("acc", 3) => {
                let (ic, lc) = match (f[1].parse::<usize>(), f[2].parse::<usize>()) {
                    (Ok(a), Ok(b)) => (a, b),
                    _ => return "error:bad-op".into(),
                };
                sel.verif_set_cursor(ic, lc);
                if f[0] == "tog" {
                    let _ = sel.handle(&Event::EvActToggle);
                } else {
                    acc = Some(sel.get_selected_indices_and_items());
                }
            }
            ("tall", 1) => {
                let _ = sel.handle(&Event::EvActToggleAll);
            }
            ("sall", 1) => {
                let _ = sel.handle(&Event::EvActSelectAll);
            }
            ("dall", 1) => {
                let _ = sel.handle(&Event::EvActDeselectAll);
            }
            ("selm", 3) => match (f[1].parse::<u32>(), f[2].parse::<usize>()) {
                (Ok(i), Ok(it)) => sel.act_select_matched(current_run_num(), matched(i, it, 0)),
                _ => return "error:bad-op".into(),
            },
            _ => return "error:bad-op".into(),
        }
        out.push(obs(&sel, base, acc));
    }
    out.join(" ")
}
