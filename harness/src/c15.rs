//! C15: the real `ItemPool` under operation sequences, and the real `SpinLock` under contention.
use crate::util::*;
use skim::prelude::*;
use skim::verif::{ItemPool, SpinLock};
use std::sync::atomic::{AtomicUsize, Ordering};
use std::thread;

fn ids(items: &[Arc<dyn SkimItem>]) -> String {
    let v: Vec<String> = items.iter().map(|i| i.text().to_string()).collect();
    if v.is_empty() {
        "_".into()
    } else {
        v.join(",")
    }
}

fn pool(n: usize, ops: &str) -> String {
    let pool = ItemPool::new().lines_to_reserve(n);
    let mut next = 0usize;
    let mut out = vec![];
    for t in ops.split(' ').filter(|t| !t.is_empty()) {
        let mut it = t.split(':');
        match it.next().unwrap_or("") {
            "a" => {
                let k: usize = match it.next().and_then(|k| k.parse().ok()) {
                    Some(k) => k,
                    None => return "error:bad-op".into(),
                };
                let items: Vec<Arc<dyn SkimItem>> =
                    (next..next + k).map(|i| Arc::new(i.to_string()) as Arc<dyn SkimItem>).collect();
                next += k;
                out.push(format!("n{}", pool.append(items)));
            }
            "t" => {
                let start = pool.num_taken();
                let g = pool.take();
                out.push(format!("t{}:{}", start, ids(&g)));
            }
            "ts" => {
                // take, summarised (for very large slices): start, length, first and last id
                let start = pool.num_taken();
                let g = pool.take();
                let first = g.first().map(|i| i.text().to_string()).unwrap_or_else(|| "_".into());
                let last = g.last().map(|i| i.text().to_string()).unwrap_or_else(|| "_".into());
                out.push(format!("T{}:{}:{}:{}", start, g.len(), first, last));
            }
            "r" => {
                pool.reset();
                out.push("u".into());
            }
            "c" => {
                pool.clear();
                out.push("u".into());
            }
            "l" => out.push(format!("n{}", pool.len())),
            "nt" => out.push(format!("n{}", pool.num_taken())),
            "nn" => out.push(format!("n{}", pool.num_not_taken())),
            "h" => {
                let g = pool.reserved();
                out.push(format!("h{}", ids(&g)));
            }
            _ => return "error:bad-op".into(),
        }
    }
    out.join(" ")
}

/// N threads, each `iters` times: lock; read counter; yield; write counter+1; unlock.
/// The read-modify-write is deliberately not atomic; `inside` detects two holders at once.
fn lock(threads: usize, iters: usize) -> String {
    let m = Arc::new(SpinLock::new(0usize));
    let inside = Arc::new(AtomicUsize::new(0));
    let overlaps = Arc::new(AtomicUsize::new(0));
    let mut hs = vec![];
    for _ in 0..threads {
        let m = m.clone();
        let inside = inside.clone();
        let overlaps = overlaps.clone();
        hs.push(thread::spawn(move || {
            for k in 0..iters {
                let mut g = m.lock();
                if inside.fetch_add(1, Ordering::SeqCst) != 0 {
                    overlaps.fetch_add(1, Ordering::SeqCst);
                }
                let v = *g;
                if k % 4 == 0 {
                    thread::yield_now();
                }
                if k % 16 == 1 {
                    // a long critical section (a matcher run holding the pool, a stalled collector): waiters exhaust any
                    // bounded fast path and contend in whatever slow path the lock has
                    let t0 = std::time::Instant::now();
                    while t0.elapsed() < std::time::Duration::from_micros(200) {
                        std::hint::spin_loop();
                    }
                }
                *g = v + 1;
                inside.fetch_sub(1, Ordering::SeqCst);
                drop(g);
            }
        }));
    }
    for h in hs {
        let _ = h.join();
    }
    let count = *m.lock();
    format!("count={} overlaps={}", count, overlaps.load(Ordering::SeqCst))
}

/// appends (one thread, chunks of 1..3) overlapping takes (another thread, as the matcher thread does:
/// `num_taken(); take()`): every item must be handed out exactly once, in order, at its own index.
fn overlap(n: usize, chunk: usize) -> String {
    let pool = Arc::new(ItemPool::new());
    let p2 = pool.clone();
    let done = Arc::new(AtomicUsize::new(0));
    let d2 = done.clone();
    let appender = thread::spawn(move || {
        let mut next = 0usize;
        while next < n {
            let k = chunk.min(n - next).max(1);
            let items: Vec<Arc<dyn SkimItem>> =
                (next..next + k).map(|i| Arc::new(i.to_string()) as Arc<dyn SkimItem>).collect();
            next += k;
            p2.append(items);
            if next % 64 == 0 {
                thread::yield_now();
            }
        }
        d2.store(1, Ordering::SeqCst);
    });
    let mut got: Vec<usize> = Vec::with_capacity(n);
    let mut bad_index = 0usize;
    loop {
        let finished = done.load(Ordering::SeqCst) == 1;
        {
            let start = pool.num_taken();
            let g = pool.take();
            for (i, it) in g.iter().enumerate() {
                let id: usize = it.text().parse().unwrap_or(usize::MAX);
                if id != start + i {
                    bad_index += 1;
                }
                got.push(id);
            }
        }
        if finished && pool.num_not_taken() == 0 {
            break;
        }
        if got.len() > 4 * n + 16 {
            break;
        }
    }
    let _ = appender.join();
    let exact = got.len() == n && got.iter().enumerate().all(|(i, &x)| i == x);
    format!(
        "handed={} exact={} index_errors={}",
        got.len(),
        if exact { 1 } else { 0 },
        bad_index
    )
}

/// M-case: the real `Matcher::run` (rayon inside) over the real pool, one run per batch: every matched item must carry the
/// position it has in the source (`item_idx` = index in the pool), each position once, whatever order the workers finish in.
fn matcher_runs(batches: &[usize]) -> String {
    use skim::verif::Matcher;
    let pool = Arc::new(defer_drop::DeferDrop::new(ItemPool::new()));
    let factory: Rc<dyn MatchEngineFactory> = Rc::new(AndOrEngineFactory::new(
        ExactOrFuzzyEngineFactory::builder().exact_mode(false).build(),
    ));
    let matcher = Matcher::builder(factory).build();
    let mut next = 0usize;
    let (mut matched, mut index_errors) = (0usize, 0usize);
    let mut seen: Vec<usize> = vec![];
    for &k in batches {
        let items: Vec<Arc<dyn SkimItem>> = (next..next + k).map(|i| Arc::new(i.to_string()) as Arc<dyn SkimItem>).collect();
        next += k;
        pool.append(items);
        let ctrl = matcher.run("", pool.clone(), |_| {});
        let t0 = std::time::Instant::now();
        while !ctrl.stopped() {
            if t0.elapsed() > std::time::Duration::from_secs(20) {
                return "error:matcher-run-did-not-stop".into();
            }
            thread::sleep(std::time::Duration::from_micros(200));
        }
        let items = ctrl.into_items();
        for m in items.lock().iter() {
            matched += 1;
            let id: usize = m.item.text().parse().unwrap_or(usize::MAX);
            if id != m.item_idx as usize {
                index_errors += 1;
            }
            seen.push(m.item_idx as usize);
        }
    }
    seen.sort_unstable();
    let exact = seen.len() == next && seen.iter().enumerate().all(|(i, &x)| i == x);
    format!("matched={} exact={} index_errors={}", matched, if exact { 1 } else { 0 }, index_errors)
}

/// H-case: the real `Header` widget over the real pool: appends in chunks, clears (command re-run), and draws in between;
/// a draw reports the widget's height and the rows it shows (bottom-up: row `height-1-i` is header line i).
fn header(n: usize, ops: &str) -> String {
    use crate::canvas::RecCanvas;
    use skim::verif::Header;
    use tuikit::prelude::{Draw, Widget};
    let pool = Arc::new(defer_drop::DeferDrop::new(ItemPool::new().lines_to_reserve(n)));
    let hdr = Header::empty().item_pool(pool.clone());
    let mut next = 0usize;
    let mut out = vec![];
    for t in ops.split(' ').filter(|t| !t.is_empty()) {
        let mut it = t.split(':');
        match it.next().unwrap_or("") {
            "a" => {
                let k: usize = it.next().and_then(|k| k.parse().ok()).unwrap_or(0);
                let items: Vec<Arc<dyn SkimItem>> =
                    (next..next + k).map(|i| Arc::new(i.to_string()) as Arc<dyn SkimItem>).collect();
                next += k;
                pool.append(items);
                out.push("u".to_string());
            }
            "c" => {
                pool.clear();
                out.push("u".into());
            }
            "d" => {
                let h = 50usize;
                let mut canvas = RecCanvas::new(30, h);
                let hint = hdr.size_hint().1.unwrap_or(0);
                if hdr.draw(&mut canvas).is_err() {
                    out.push("d:error".into());
                    continue;
                }
                let rows: Vec<String> = (0..hint.min(h)).map(|i| canvas.row_text(h - 1 - i, 2)).collect();
                // nothing may be shown above the rows the widget asks for
                let extra = (hint.min(h)..h).any(|i| !canvas.row_text(h - 1 - i, 0).is_empty());
                out.push(format!("d{}:{}{}", hint, if rows.is_empty() { "_".to_string() } else { rows.join(",") }, if extra { ":extra" } else { "" }));
            }
            _ => return "error:bad-op".into(),
        }
    }
    out.join(" ")
}

pub fn run(case: &str) -> String {
    let parts: Vec<&str> = case.split('|').collect();
    match parts.as_slice() {
        ["M", bs] => matcher_runs(&dec_nats(bs)),
        ["X", n, c] => overlap(n.parse().unwrap_or(0), c.parse().unwrap_or(1)),
        ["P", n, ops] => pool(n.parse().unwrap_or(0), ops),
        ["H", n, ops] => header(n.parse().unwrap_or(0), ops),
        ["L", t, k] => lock(t.parse().unwrap_or(0), k.parse().unwrap_or(0)),
        _ => "error:bad-case".into(),
    }
}
