//! C19: key bindings.  Runs the real `parse_key_action`, `Input::{new, parse_keymaps, parse_expect_keys,
//! translate_event}`, `parse_action_arg` on the case (see lean/SkimModel/Driver/C19.lean for the format).
use crate::util::*;
use skim::verif::{default_key_map, parse_action_arg, parse_key_action, ActionChain, Event, Input};
use std::panic;
use tuikit::event::Event as TermEvent;
use tuikit::key::{from_keyname, Key};

fn key_str(k: Key) -> String {
    match k {
        Key::Ctrl(c) => format!("Ctrl.{}", c as u32),
        Key::CtrlAlt(c) => format!("CtrlAlt.{}", c as u32),
        Key::Alt(c) => format!("Alt.{}", c as u32),
        Key::Char(c) => format!("Char.{}", c as u32),
        Key::F(n) => format!("F.{}", n),
        other => {
            let s = format!("{:?}", other);
            if s.chars().all(|c| c.is_ascii_alphanumeric()) {
                s
            } else {
                format!("error-unprintable-key-{}", s.replace(|c: char| !c.is_ascii_alphanumeric(), "_"))
            }
        }
    }
}

#[rustfmt::skip]
const UNIT_KEYS: &[Key] = &[
    Key::Null, Key::ESC, Key::Tab, Key::Enter, Key::BackTab, Key::Backspace, Key::AltBackTab,
    Key::Up, Key::Down, Key::Left, Key::Right, Key::Home, Key::End, Key::Insert, Key::Delete, Key::PageUp, Key::PageDown,
    Key::CtrlUp, Key::CtrlDown, Key::CtrlLeft, Key::CtrlRight,
    Key::ShiftUp, Key::ShiftDown, Key::ShiftLeft, Key::ShiftRight,
    Key::AltUp, Key::AltDown, Key::AltLeft, Key::AltRight, Key::AltHome, Key::AltEnd, Key::AltPageUp, Key::AltPageDown,
    Key::AltShiftUp, Key::AltShiftDown, Key::AltShiftLeft, Key::AltShiftRight,
    Key::AltEnter, Key::AltBackspace, Key::AltTab, Key::BracketedPasteStart, Key::BracketedPasteEnd,
];

fn parse_key(t: &str) -> Option<Key> {
    let mut it = t.splitn(2, '.');
    let v = it.next()?;
    match it.next() {
        None => UNIT_KEYS.iter().copied().find(|k| format!("{:?}", k) == v),
        Some(p) => {
            let n: u32 = p.parse().ok()?;
            match v {
                "Ctrl" => Some(Key::Ctrl(std::char::from_u32(n)?)),
                "CtrlAlt" => Some(Key::CtrlAlt(std::char::from_u32(n)?)),
                "Alt" => Some(Key::Alt(std::char::from_u32(n)?)),
                "Char" => Some(Key::Char(std::char::from_u32(n)?)),
                "F" => Some(Key::F(n as u8)),
                _ => None,
            }
        }
    }
}

fn event_str(ev: &Event) -> String {
    let dbg = format!("{:?}", ev);
    let ctor: String = dbg.chars().take_while(|c| c.is_ascii_alphanumeric() || *c == '_').collect();
    let payload = match ev {
        Event::EvActAccept(None) => Some("n".to_string()),
        Event::EvActAccept(Some(s)) => Some(format!("o{}", enc_str(s))),
        Event::EvActAddChar(c) => Some(format!("c{}", *c as u32)),
        Event::EvInputKey(k) => Some(format!("k{}", key_str(*k))),
        Event::EvActExecute(s)
        | Event::EvActExecuteSilent(s)
        | Event::EvActIfQueryEmpty(s)
        | Event::EvActIfQueryNotEmpty(s)
        | Event::EvActIfNonMatched(s) => Some(format!("s{}", enc_str(s))),
        Event::EvActDown(n)
        | Event::EvActUp(n)
        | Event::EvActHalfPageDown(n)
        | Event::EvActHalfPageUp(n)
        | Event::EvActPageDown(n)
        | Event::EvActPageUp(n)
        | Event::EvActPreviewUp(n)
        | Event::EvActPreviewDown(n)
        | Event::EvActPreviewLeft(n)
        | Event::EvActPreviewRight(n)
        | Event::EvActPreviewPageUp(n)
        | Event::EvActPreviewPageDown(n)
        | Event::EvActScrollLeft(n)
        | Event::EvActScrollRight(n) => Some(format!("i{}", n)),
        _ => None,
    };
    match payload {
        Some(p) => format!("{}({})", ctor, p),
        // a payload-carrying variant this printer does not know must not pass as a plain one
        None if dbg != ctor => format!("error-unprintable-event-{}", ctor),
        None => ctor,
    }
}

fn chain_str(ch: &ActionChain) -> String {
    ch.iter().map(event_str).collect::<Vec<_>>().join("+")
}

fn show_tr(r: &(Key, ActionChain)) -> String {
    format!("{}={}", key_str(r.0), chain_str(&r.1))
}

fn sorted_default_keys() -> Vec<Key> {
    let mut ks: Vec<(String, Key)> = default_key_map().keys().map(|k| (key_str(*k), *k)).collect();
    ks.sort_by(|a, b| a.0.cmp(&b.0));
    ks.into_iter().map(|x| x.1).collect()
}

fn km_section(input: &Input, probes: &[&str]) -> Result<String, String> {
    let dm = default_key_map();
    let dkeys = sorted_default_keys();
    let mut changed = vec![];
    for k in &dkeys {
        let r = input.translate_event(TermEvent::Key(*k));
        if Some(&r.1) != dm.get(k) {
            changed.push(show_tr(&r));
        }
    }
    let mut out = vec![];
    for t in probes {
        let o = if *t == "r" {
            format!("r:{}", show_tr(&input.translate_event(TermEvent::Resize { width: 80, height: 24 })))
        } else if *t == "o" {
            format!("o:{}", show_tr(&input.translate_event(TermEvent::Restarted)))
        } else if *t == "d" {
            dkeys.iter().map(|k| show_tr(&input.translate_event(TermEvent::Key(*k)))).collect::<Vec<_>>().join(";")
        } else if let Some(n) = t.strip_prefix('n') {
            let name = dec_str(n);
            match from_keyname(&name) {
                None => format!("n{}:?", enc_str(&name)),
                Some(k) => format!("n{}:{}", enc_str(&name), show_tr(&input.translate_event(TermEvent::Key(k)))),
            }
        } else if let Some(k) = t.strip_prefix('k') {
            match parse_key(k) {
                None => return Err("error:bad-probe".into()),
                Some(k) => show_tr(&input.translate_event(TermEvent::Key(k))),
            }
        } else {
            return Err("error:bad-probe".into());
        };
        out.push(o);
    }
    Ok(format!(
        "{} @ {}",
        if changed.is_empty() { "_".to_string() } else { changed.join(";") },
        if out.is_empty() { "_".to_string() } else { out.join(";") }
    ))
}

fn panic_msg(e: Box<dyn std::any::Any + Send>) -> String {
    let msg = if let Some(s) = e.downcast_ref::<String>() {
        s.clone()
    } else if let Some(s) = e.downcast_ref::<&str>() {
        s.to_string()
    } else {
        "?".to_string()
    };
    format!("panic:{}", msg.replace('\t', " ").replace('\n', " "))
}

fn pka_str(s: &str) -> String {
    let r = parse_key_action(s);
    if r.is_empty() {
        return "_".into();
    }
    r.iter()
        .map(|(k, acts)| {
            format!(
                "{}>{}",
                enc_str(k),
                acts.iter()
                    .map(|(n, a)| format!(
                        "{}~{}",
                        enc_str(n),
                        match a {
                            None => "n".to_string(),
                            Some(a) => format!("s{}", enc_str(a)),
                        }
                    ))
                    .collect::<Vec<_>>()
                    .join("+")
            )
        })
        .collect::<Vec<_>>()
        .join("/")
}

pub fn run(case: &str) -> String {
    let parts: Vec<&str> = case.split('|').collect();
    if parts.len() != 2 {
        return "error:bad-case".into();
    }
    let hd: Vec<&str> = parts[0].split(';').collect();
    if hd.len() != 3 {
        return "error:bad-case".into();
    }
    let binds = dec_list(hd[0]);
    let expect: Option<String> = if hd[1] == "~" { None } else { Some(dec_str(hd[1])) };
    let conds = dec_list(hd[2]);
    let probes: Vec<&str> = parts[1].split(' ').filter(|t| !t.is_empty()).collect();

    // exactly what Skim::run_with does with options.bind / options.expect
    let binds2 = binds.clone();
    let expect2 = expect.clone();
    let built = panic::catch_unwind(move || {
        let refs: Vec<&str> = binds2.iter().map(|s| s.as_str()).collect();
        let mut input = Input::new();
        input.parse_keymaps(&refs);
        input.parse_expect_keys(expect2.as_deref());
        input
    });
    let km = match built {
        Err(e) => panic_msg(e),
        Ok(input) => match km_section(&input, &probes) {
            Ok(s) => s,
            Err(e) => return e,
        },
    };
    let pka = if binds.is_empty() {
        "_".to_string()
    } else {
        binds.iter().map(|s| pka_str(s)).collect::<Vec<_>>().join(",")
    };
    let cond = if conds.is_empty() {
        "_".to_string()
    } else {
        conds
            .iter()
            .map(|a| {
                let a2 = a.clone();
                match panic::catch_unwind(move || parse_action_arg(&a2)) {
                    Err(e) => panic_msg(e),
                    Ok(None) => "none".to_string(),
                    Ok(Some(ev)) => event_str(&ev),
                }
            })
            .collect::<Vec<_>>()
            .join(";")
    };
    format!("{} # {} # {}", km, pka, cond)
}
