//! C13: the sort key.  Runs the real `Model::new` (tiebreak option -> `RankBuilder`), the real
//! `RankBuilder::build_rank` and the real `Ord for MatchedItem` on the tuples of the case line.
//!
//! case  = `<kind>;<opt>|<tuple> <tuple> …`
//!   kind  `m`  the builder of a `Model` created from `options.tiebreak = opt` (hook `verif_rank_builder`)
//!         `d`  `RankBuilder::default()` (what engines use when no builder is supplied); opt ignored
//!         `p`  `parse_criteria(opt-string)` alone; answer `none` or the Debug name of the variant
//!   opt   `N` = `None`, `S<code points>` = `Some(string)`
//!   tuple `score,begin,end,length`  (score: i32, the others: usize)
//!         `e`  engine stream, case = `e;<opt>;<engine>;<query>;<text>|` with engine in exact|regex|fuzzy|all
//!              (case-respecting, query/text as code points): the real engine is built twice, once with
//!              the builder of `Model::new(tiebreak = opt)` and once with the probe builder
//!              `RankBuilder::new([Score, Begin, End, Length])`, and run on the item `text`;
//!              answer `nomatch` or `P=<probe rank> R=<rank> M=B<b>,<e>` / `M=C<first>,<last>,<n>` / `M=C-`
//! answer = `<rank> <rank> …;<cmp><cmp>…`   rank = `a,b,c,d` or `panic`;
//!          cmp i = `MatchedItem_i.cmp(MatchedItem_{i+1})` as `<`, `=`, `>` (`!` when one side panicked)
use crate::util::*;
use skim::prelude::*;
use skim::verif::{
    parse_criteria, ExactEngine, ExactMatchingParam, FuzzyEngine, MatchAllEngine, MatchedItem, Model, RankBuilder,
    RankCriteria, Reader, RegexEngine,
};
use skim::{CaseMatching, MatchEngine, MatchRange};
use std::cmp::Ordering;
use std::panic::{catch_unwind, AssertUnwindSafe};
use std::sync::mpsc::channel;
use std::sync::Arc;
use tuikit::term::{Term, TermOptions};

fn opt_of(s: &str) -> Result<Option<String>, String> {
    if s == "N" {
        Ok(None)
    } else if let Some(rest) = s.strip_prefix('S') {
        Ok(Some(dec_str(rest)))
    } else {
        Err("error:bad-opt".into())
    }
}

thread_local! {
    /// a held terminal never touches a tty; one instance serves every case
    static TERM: Arc<Term> = Arc::new(Term::with_options(TermOptions::default().hold(true)).unwrap());
}

fn builder_from_model(tiebreak: Option<String>) -> Arc<RankBuilder> {
    let mut options = SkimOptionsBuilder::default().build().unwrap();
    options.tiebreak = tiebreak;
    let (tx, rx) = channel();
    let reader = Reader::with_options(&options);
    let term = TERM.with(|t| t.clone());
    let model = Model::new(rx, tx, reader, term, &options);
    model.verif_rank_builder()
}

fn parse_tuple(t: &str) -> Option<(i32, usize, usize, usize)> {
    let v: Vec<&str> = t.split(',').collect();
    if v.len() != 4 {
        return None;
    }
    Some((v[0].parse().ok()?, v[1].parse().ok()?, v[2].parse().ok()?, v[3].parse().ok()?))
}

fn engine(kind: &str, query: &str, rb: Arc<RankBuilder>) -> Option<Box<dyn MatchEngine>> {
    Some(match kind {
        "exact" => {
            let mut p = ExactMatchingParam::default();
            p.case = CaseMatching::Respect;
            Box::new(ExactEngine::builder(query, p).rank_builder(rb).build())
        }
        "regex" | "regexbad" => Box::new(RegexEngine::builder(query, CaseMatching::Respect).rank_builder(rb).build()),
        "fuzzy" => Box::new(
            FuzzyEngine::builder()
                .query(query)
                .case(CaseMatching::Respect)
                .rank_builder(rb)
                .build(),
        ),
        "all" => Box::new(MatchAllEngine::builder().rank_builder(rb).build()),
        // through the factories, built the way Model::new builds them (the term's prefix / suffix characters choose the engine)
        "fx0" | "fx1" => ExactOrFuzzyEngineFactory::builder()
            .exact_mode(kind == "fx1")
            .rank_builder(rb)
            .build()
            .create_engine_with_case(query, CaseMatching::Respect),
        "frx" => RegexEngineFactory::builder()
            .rank_builder(rb)
            .build()
            .create_engine_with_case(query, CaseMatching::Respect),
        _ => return None,
    })
}

fn show_rank(r: &Rank) -> String {
    r.iter().map(|x| x.to_string()).collect::<Vec<_>>().join(",")
}

/// an item whose matching is limited to the byte range starting at the middle character (what --nth does to a line)
struct RItem {
    text: String,
    ranges: Vec<(usize, usize)>,
}

impl SkimItem for RItem {
    fn text(&self) -> Cow<str> {
        Cow::Borrowed(&self.text)
    }
    fn get_matching_ranges(&self) -> Option<&[(usize, usize)]> {
        Some(&self.ranges)
    }
}

fn run_engine(opt: &str, kind: &str, query: &str, text: &str) -> String {
    // `<engine>@`: the same engine on an item with a matching range that starts after column 0
    let (kind, ranged) = match kind.strip_suffix('@') {
        Some(k) => (k, true),
        None => (kind, false),
    };
    let opt = match opt_of(opt) {
        Ok(o) => o,
        Err(e) => return e,
    };
    let configured = builder_from_model(opt);
    let probe = Arc::new(RankBuilder::new(vec![
        RankCriteria::Score,
        RankCriteria::Begin,
        RankCriteria::End,
        RankCriteria::Length,
    ]));
    let (e1, e2) = match (engine(kind, query, configured), engine(kind, query, probe)) {
        (Some(a), Some(b)) => (a, b),
        _ => return "error:bad-engine".into(),
    };
    let item: Arc<dyn SkimItem> = if ranged {
        let mid = text.char_indices().nth(text.chars().count() / 2).map(|(b, _)| b).unwrap_or(0);
        Arc::new(RItem { text: text.to_string(), ranges: vec![(mid, text.len())] })
    } else {
        Arc::new(text.to_string())
    };
    match (e1.match_item(item.clone()), e2.match_item(item)) {
        (None, None) => "nomatch".into(),
        (Some(r), Some(p)) => {
            let m = match &p.matched_range {
                MatchRange::ByteRange(b, e) => format!("B{},{}", b, e),
                MatchRange::Chars(v) if v.is_empty() => "C-".to_string(),
                MatchRange::Chars(v) => format!("C{},{},{}", v[0], v[v.len() - 1], v.len()),
            };
            if r.matched_range != p.matched_range {
                return "error:matched-range-depends-on-rank-builder".into();
            }
            format!("P={} R={} M={}", show_rank(&p.rank), show_rank(&r.rank), m)
        }
        _ => "error:match-depends-on-rank-builder".into(),
    }
}

pub fn run(case: &str) -> String {
    let (hd, tuples) = match case.rfind('|') {
        Some(i) => (&case[..i], &case[i + 1..]),
        None => return "error:bad-case".into(),
    };
    let hd: Vec<&str> = hd.split(';').collect();
    if hd.len() == 5 && hd[0] == "e" {
        return run_engine(hd[1], hd[2], &dec_str(hd[3]), &dec_str(hd[4]));
    }
    if hd.len() != 2 {
        return "error:bad-case".into();
    }
    let opt = match opt_of(hd[1]) {
        Ok(o) => o,
        Err(e) => return e,
    };
    let rb: Arc<RankBuilder> = match hd[0] {
        "m" => builder_from_model(opt),
        "d" => Arc::new(RankBuilder::default()),
        "p" => {
            return match parse_criteria(&opt.unwrap_or_default()) {
                None => "none".into(),
                Some(c) => format!("{:?}", c),
            }
        }
        _ => return "error:bad-kind".into(),
    };
    let mut ranks: Vec<Option<Rank>> = vec![];
    for t in tuples.split(' ').filter(|t| !t.is_empty()) {
        let (score, begin, end, length) = match parse_tuple(t) {
            Some(x) => x,
            None => return "error:bad-tuple".into(),
        };
        let rb2 = rb.clone();
        ranks.push(catch_unwind(AssertUnwindSafe(move || rb2.build_rank(score, begin, end, length))).ok());
    }
    let item: Arc<dyn SkimItem> = Arc::new(String::new());
    let mk = |rank: Rank| MatchedItem {
        item: item.clone(),
        rank,
        matched_range: None,
        item_idx: 0,
    };
    let mut cmps = String::new();
    for w in ranks.windows(2) {
        cmps.push(match (w[0], w[1]) {
            (Some(a), Some(b)) => match mk(a).cmp(&mk(b)) {
                Ordering::Less => '<',
                Ordering::Equal => '=',
                Ordering::Greater => '>',
            },
            _ => '!',
        });
    }
    let rs: Vec<String> = ranks
        .iter()
        .map(|r| match r {
            Some(a) => a.iter().map(|x| x.to_string()).collect::<Vec<_>>().join(","),
            None => "panic".to_string(),
        })
        .collect();
    format!("{};{}", rs.join(" "), cmps)
}
