//! C03: one term (or one regex) against texts, through the PUBLIC engine factories.
//! case = `<kind t|r>;<exact 0|1>;<case s|r|i>;<algo 1|2|c>;<term>;<text>,<text>,...`
use crate::util::*;
use skim::prelude::*;

pub fn parse_case(s: &str) -> Option<CaseMatching> {
    Some(match s {
        "s" => CaseMatching::Smart,
        "r" => CaseMatching::Respect,
        "i" => CaseMatching::Ignore,
        _ => return None,
    })
}

pub fn parse_algo(s: &str) -> Option<FuzzyAlgorithm> {
    Some(match s {
        "1" => FuzzyAlgorithm::SkimV1,
        "2" => FuzzyAlgorithm::SkimV2,
        "c" => FuzzyAlgorithm::Clangd,
        _ => return None,
    })
}

fn b01(b: bool) -> &'static str {
    if b {
        "1"
    } else {
        "0"
    }
}

/// remove the backslashes `regex::escape` put in front of meta characters
fn unescape(s: &str) -> String {
    let mut out = String::new();
    let mut it = s.chars();
    while let Some(c) = it.next() {
        if c == '\\' {
            if let Some(n) = it.next() {
                out.push(n);
            }
        } else {
            out.push(c);
        }
    }
    out
}

/// canonical structure of ONE term engine from its `Display` string:
/// `A` | `F:<body>` | `E:<inv>:none` | `E:<inv>:<ci>:<pre>:<post>:<body>` | `R:<pattern>` | `U:<raw>`
pub fn canon_term(d: &str) -> String {
    if d == "Noop" {
        return "A".into();
    }
    if let Some(r) = d.strip_prefix("(Fuzzy: ").and_then(|r| r.strip_suffix(')')) {
        return format!("F:{}", enc_str(r));
    }
    if let Some(r) = d.strip_prefix("(Regex: ").and_then(|r| r.strip_suffix(')')) {
        return format!("R:{}", enc_str(r));
    }
    if let Some(r) = d.strip_prefix("(Exact|").and_then(|r| r.strip_suffix(')')) {
        let (inv, r) = match r.strip_prefix('!') {
            Some(x) => (true, x),
            None => (false, r),
        };
        if r.is_empty() {
            return format!("E:{}:none", b01(inv));
        }
        let (ci, r) = match r.strip_prefix("(?i)") {
            Some(x) => (true, x),
            None => (false, r),
        };
        let (pre, r) = match r.strip_prefix('^') {
            Some(x) => (true, x),
            None => (false, r),
        };
        // a trailing `$` is the anchor iff it is not escaped (even number of backslashes before it)
        let mut post = false;
        let mut body = r;
        if let Some(x) = r.strip_suffix('$') {
            let nb = x.chars().rev().take_while(|&c| c == '\\').count();
            if nb % 2 == 0 {
                post = true;
                body = x;
            }
        }
        return format!(
            "E:{}:{}:{}:{}:{}",
            b01(inv),
            b01(ci),
            b01(pre),
            b01(post),
            enc_str(&unescape(body))
        );
    }
    format!("U:{}", enc_str(d))
}

pub fn verdict(engine: &dyn MatchEngine, text: &str) -> bool {
    let item: Arc<dyn SkimItem> = Arc::new(text.to_string());
    engine.match_item(item).is_some()
}

pub fn run(case: &str) -> String {
    let p: Vec<&str> = case.split(';').collect();
    if p.len() != 6 {
        return "error:bad-case".into();
    }
    let exact = p[1] == "1";
    let (cm, algo) = match (parse_case(p[2]), parse_algo(p[3])) {
        (Some(c), Some(a)) => (c, a),
        _ => return "error:bad-cfg".into(),
    };
    let term = dec_str(p[4]);
    let texts = dec_list(p[5]);
    match p[0] {
        "t" => {
            let f = ExactOrFuzzyEngineFactory::builder()
                .exact_mode(exact)
                .fuzzy_algorithm(algo)
                .build();
            let e = f.create_engine_with_case(&term, cm);
            let bits: String = texts.iter().map(|t| b01(verdict(e.as_ref(), t))).collect();
            format!("{};{}", canon_term(&format!("{}", e)), bits)
        }
        "w" => {
            // the term as it is TYPED inside a query: blanks escaped, through the and/or splitter on top of the term factory
            let inner = ExactOrFuzzyEngineFactory::builder()
                .exact_mode(exact)
                .fuzzy_algorithm(algo)
                .build();
            let f = AndOrEngineFactory::new(inner);
            let typed = term.replace(' ', "\\ ");
            let e = f.create_engine_with_case(&typed, cm);
            let bits: String = texts.iter().map(|t| b01(verdict(e.as_ref(), t))).collect();
            let d = format!("{}", e);
            let one = d
                .strip_prefix("(Or: (And: ")
                .and_then(|r| r.strip_suffix("))"))
                .map(|r| r.to_string())
                .unwrap_or(d);
            format!("{};{}", canon_term(&one), bits)
        }
        "r" => {
            let f = RegexEngineFactory::builder().build();
            let e = f.create_engine_with_case(&term, cm);
            let bits: String = texts.iter().map(|t| b01(verdict(e.as_ref(), t))).collect();
            // the regex crate's own answers (oracle for the Lean model) for `q` and `(?i)q`
            let oracle = |pat: String| -> String {
                match regex::Regex::new(&pat) {
                    Ok(re) => format!(
                        "1{}",
                        texts.iter().map(|t| b01(re.find(t).is_some())).collect::<String>()
                    ),
                    Err(_) => format!("0{}", texts.iter().map(|_| "0").collect::<String>()),
                }
            };
            format!(
                "{};{};{};{}",
                canon_term(&format!("{}", e)),
                bits,
                oracle(term.clone()),
                oracle(format!("(?i){}", term))
            )
        }
        _ => "error:bad-kind".into(),
    }
}
