//! C16: drive the real ANSI parser (`AnsiString::parse`, `ANSIParser::parse_ansi`, `Header::with_options`,
//! `DefaultSkimItem::new`) and, in mode `tok`, vte alone with a recording `Perform`.
//! Case format and answer format: see lean/SkimModel/Driver/C16.lean.
use crate::util::*;
use skim::prelude::*;
use skim::verif::{ANSIParser, DefaultSkimItem, Header};
use skim::{AnsiString, DisplayContext, Matches};
use tuikit::attr::{Attr, Color, Effect};

enum Seg {
    Chars(String),
    Nl,
}

fn parse_seg(t: &str) -> Option<Seg> {
    if t == "n" {
        return Some(Seg::Nl);
    }
    let parts: Vec<&str> = t.split('=').collect();
    match (parts[0], parts.len()) {
        ("t", 2) | ("r", 2) => Some(Seg::Chars(dec_str(parts[1]))),
        ("s", 2) => {
            if parts[1].chars().all(|c| c.is_ascii_digit() || c == ';' || c == ':') {
                Some(Seg::Chars(format!("\x1b[{}m", parts[1])))
            } else {
                None
            }
        }
        ("c", 3) => {
            let f = std::char::from_u32(parts[2].parse::<u32>().ok()?)?;
            Some(Seg::Chars(format!("\x1b[{}{}", dec_str(parts[1]), f)))
        }
        _ => None,
    }
}

fn show_color(c: Color) -> String {
    match c {
        Color::Default => "d".to_string(),
        Color::AnsiValue(n) => format!("a{}", n),
        Color::Rgb(r, g, b) => format!("r{}.{}.{}", r, g, b),
        _ => "?".to_string(),
    }
}

fn show_effect(e: Effect) -> String {
    let mut s = String::new();
    for (flag, ch) in [
        (Effect::BOLD, 'b'),
        (Effect::DIM, 'd'),
        (Effect::UNDERLINE, 'u'),
        (Effect::BLINK, 'k'),
        (Effect::REVERSE, 'r'),
    ] {
        if e.contains(flag) {
            s.push(ch);
        }
    }
    if s.is_empty() {
        s.push('-');
    }
    s
}

fn show_attr(a: Attr) -> String {
    format!("{},{},{}", show_color(a.fg), show_color(a.bg), show_effect(a.effect))
}

fn obs(s: &AnsiString) -> String {
    let mut text = String::new();
    let mut runs: Vec<(Attr, usize)> = vec![];
    for (c, a) in s.iter() {
        text.push(c);
        match runs.last_mut() {
            Some((la, k)) if *la == a => *k += 1,
            _ => runs.push((a, 1)),
        }
    }
    // `stripped()` and the characters yielded by `iter()` must be the same text
    if text != s.stripped() {
        return format!("error:iter-text-differs-from-stripped:{}", enc_str(s.stripped()));
    }
    let rle = if runs.is_empty() {
        "_".to_string()
    } else {
        runs.iter().map(|(a, k)| format!("{}*{}", k, show_attr(*a))).collect::<Vec<_>>().join("+")
    };
    format!("{}~{}~{}", enc_str(&text), if s.has_attrs() { 1 } else { 0 }, rle)
}

struct Recorder(Vec<String>);

impl vte::Perform for Recorder {
    fn print(&mut self, c: char) {
        self.0.push(format!("p{}", c as u32));
    }
    fn execute(&mut self, byte: u8) {
        self.0.push(format!("x{}", byte));
    }
    fn csi_dispatch(&mut self, params: &vte::Params, _intermediates: &[u8], _ignore: bool, action: char) {
        let ps: Vec<String> = params
            .iter()
            .map(|p| p.iter().map(|x| x.to_string()).collect::<Vec<_>>().join(":"))
            .collect();
        self.0.push(format!("c{}:{}", action as u32, ps.join(";")));
    }
    fn esc_dispatch(&mut self, _intermediates: &[u8], _ignore: bool, byte: u8) {
        self.0.push(format!("e{}", byte));
    }
}

/// true when the line would start an OSC / DCS / SOS / PM / APC string (ESC then one of `] P X ^ _`):
/// those states are outside the Lean model, which answers `unsupported` on the same condition.
fn enters_string_state(line: &str) -> bool {
    let mut esc = false;
    for c in line.chars() {
        let n = c as u32;
        if n == 0x1b {
            esc = true;
        } else if esc {
            if n == 0x18 || n == 0x1a {
                esc = false;
            } else if n < 0x20 || n >= 0x7f {
                continue;
            } else if "]PX^_".contains(c) {
                return true;
            } else {
                esc = false;
            }
        }
    }
    false
}

pub fn run(case: &str) -> String {
    let parts: Vec<&str> = case.split('|').collect();
    if parts.len() != 2 {
        return "error:bad-case".into();
    }
    let mode = parts[0];
    let mut lines: Vec<String> = vec![String::new()];
    let mut has_nl = false;
    for t in parts[1].split(' ').filter(|t| !t.is_empty()) {
        match parse_seg(t) {
            Some(Seg::Chars(s)) => lines.last_mut().unwrap().push_str(&s),
            Some(Seg::Nl) => {
                has_nl = true;
                lines.push(String::new())
            }
            None => return "error:bad-seg".into(),
        }
    }
    if (mode == "one" || mode == "tok") && has_nl {
        return "error:bad-case".into();
    }
    if lines.iter().any(|l| enters_string_state(l)) || enters_string_state(&lines.join("\n")) {
        return "unsupported".into();
    }
    match mode {
        "one" => obs(&AnsiString::parse(&lines[0])),
        "multi" => {
            let mut parser = ANSIParser::default();
            lines.iter().map(|l| obs(&parser.parse_ansi(l))).collect::<Vec<_>>().join("/")
        }
        "pv" => {
            // consecutive PAIRS of lines are preview texts; the real Previewer shows them one after the other (ItemPreview::AnsiText)
            // and what its pane holds after each is observed: every text starts from default attributes
            use skim::verif::sched;
            struct PvItem(String);
            impl SkimItem for PvItem {
                fn text(&self) -> Cow<str> {
                    Cow::Borrowed("x")
                }
                fn preview(&self, _context: PreviewContext) -> ItemPreview {
                    ItemPreview::AnsiText(self.0.clone())
                }
            }
            let texts: Vec<String> = lines.chunks(2).map(|c| c.join("\n")).collect();
            sched::reset();
            sched::set_tracing(true);
            let mut pv = skim::verif::Previewer::new(None, || {});
            let mut out: Vec<String> = vec![];
            for (i, t) in texts.iter().enumerate() {
                let item: Arc<dyn SkimItem> = Arc::new(PvItem(t.clone()));
                pv.on_item_change(i, item.clone(), String::new(), String::new(), 0, || (vec![], vec![]), true);
                let sent = (i + 1) as u64;
                let deadline = std::time::Instant::now() + std::time::Duration::from_millis(3000);
                loop {
                    let got = sched::count("pv.recv") + sched::count("pv.tryrecv");
                    if got >= sent && sched::count("pv.idle") == sched::count("pv.recv") + 1 {
                        break;
                    }
                    if std::time::Instant::now() >= deadline {
                        return "error:preview-did-not-settle".into();
                    }
                    std::thread::sleep(std::time::Duration::from_micros(300));
                }
                for l in pv.verif_content_lines().iter() {
                    out.push(obs(l));
                }
            }
            out.join("/")
        }
        "hdr" => {
            let whole = lines.join("\n");
            let mut options = SkimOptionsBuilder::default().build().unwrap();
            options.header = Some(&whole);
            let header = Header::empty().with_options(&options);
            header.verif_lines().iter().map(obs).collect::<Vec<_>>().join("/")
        }
        "item" => {
            let delimiter = regex::Regex::new(r"[\t\n ]+").unwrap();
            lines
                .iter()
                .map(|l| {
                    let item = DefaultSkimItem::new(l.clone(), true, &[], &[], &delimiter);
                    let text = item.text().to_string();
                    let shown = item.display(DisplayContext {
                        text: &text,
                        score: 0,
                        matches: Matches::None,
                        container_width: 80,
                        highlight_attr: Attr::default(),
                    });
                    if shown.stripped() != text {
                        return "error:display-text-differs-from-text".to_string();
                    }
                    obs(&shown)
                })
                .collect::<Vec<_>>()
                .join("/")
        }
        "tok" => {
            let mut rec = Recorder(vec![]);
            let mut sm = vte::Parser::new();
            for b in lines[0].as_bytes() {
                sm.advance(&mut rec, *b);
            }
            rec.0.join(",")
        }
        _ => "error:bad-mode".into(),
    }
}
