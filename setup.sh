#!/bin/sh
# Build the framework from files on disk only (offline).
set -e
cd "$(dirname "$0")"
export CARGO_NET_OFFLINE=true
python3 tools/extract.py /repo lean || true
(cd lean && lake build && lake build $(ls SkimModel/Props/*.lean | sed 's#/#.#g; s#\.lean$##'))
[ -f harness/Cargo.lock ] || cp /repo/Cargo.lock harness/Cargo.lock
(cd harness && cargo build --offline)
# the real `sk` binary (release profile: a debug build of the binary dies in clap's own debug assertions);
# checks that use it rebuild it incrementally from the working tree
cargo build --release --offline --manifest-path /repo/Cargo.toml
