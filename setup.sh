#!/bin/sh
# Build the framework from files on disk only (offline).
set -e
cd "$(dirname "$0")"
export CARGO_NET_OFFLINE=true
python3 tools/extract.py /repo lean || true
(cd lean && lake build && lake build $(ls SkimModel/Props/*.lean | sed 's#/#.#g; s#\.lean$##'))
[ -f harness/Cargo.lock ] || cp /repo/Cargo.lock harness/Cargo.lock
(cd harness && cargo build --offline)
# the real `sk` binary for the CLI-level streams (dev profile WITHOUT debug assertions: a plain debug build dies in clap's own
# debug assertions); checks that use it rebuild it incrementally from the working tree (vlib/core.py build_sk)
CARGO_PROFILE_DEV_DEBUG_ASSERTIONS=false CARGO_PROFILE_DEV_OPT_LEVEL=1 CARGO_PROFILE_DEV_DEBUG=0 \
  cargo build --offline --bin sk --manifest-path /repo/Cargo.toml --target-dir harness/target-sk
